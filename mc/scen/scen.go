// Package scen defines the concurrent scenarios shared by explorer C (the
// controlled scheduler, build tag sched) and the free-running -race pass: the
// same thread bodies, expressions, documents and operations.
package scen

import (
	"errors"
	"fmt"
	"regexp"
	"sort"

	"github.com/antchfx/xpath"

	"verif/mc/doc"
	"verif/mc/eng"
)

// Instance is one fresh execution context: thread bodies sharing state, plus
// an optional invariant evaluated at every scheduling point, plus what each
// thread must observe.
type Instance struct {
	Bodies    []func() string
	Invariant func() string
	// Expect returns what each thread must observe (what the same call observes
	// when run alone). It is computed lazily, AFTER the first concurrent run of
	// the scenario in a process, so that the first run meets cold package state
	// (lazily initialised tables, empty caches).
	Expect func() []string
}

// Scenario is a named generator of fresh instances.
type Scenario struct {
	Name  string
	Group string // expr | closure | regex | pool | cache
	Desc  string
	Make  func() *Instance
}

// Doc is the shared, immutable document of the expression scenarios.
var Doc = doc.Build([]doc.Spec{{K: "e", N: "a", A: []doc.AttrS{{N: "x", V: "1"}}, C: []doc.Spec{
	{K: "e", N: "b", C: []doc.Spec{{K: "t", V: "1"}}}, {K: "e", N: "a", A: []doc.AttrS{{N: "x", V: "2"}}, C: []doc.Spec{{K: "e", N: "b"}}}, {K: "t", V: "3"}}}})

func run(e *xpath.Expr, op string, ctx int) string {
	if op == "evaluate" {
		return eng.Evaluate(e, Doc, ctx, false).String()
	}
	return eng.Select(e, Doc, ctx, false).String()
}

// exprScenario: k threads use ONE compiled expression, each with its own
// navigator and its own context node.
func exprScenario(group, s string, ops []string, ctxs []int) Scenario {
	name := fmt.Sprintf("%s %v ctx%v", s, ops, ctxs)
	var expected []string
	return Scenario{Name: name, Group: group, Desc: "threads share one compiled expression; own navigators, different context nodes",
		Make: func() *Instance {
			// every execution starts from the same package state: an empty pattern cache
			xpath.RegexpCache = xpath.NewLoadingCache(func(k interface{}) (interface{}, error) { return regexp.Compile(k.(string)) }, 64)
			e, err := xpath.Compile(s)
			if err != nil {
				panic("scenario expression does not compile: " + s + ": " + err.Error())
			}
			in := &Instance{}
			in.Expect = func() []string {
				if expected == nil {
					// what each call observes alone, on a freshly compiled expression
					for i := range ops {
						fresh, _ := xpath.Compile(s)
						expected = append(expected, run(fresh, ops[i], ctxs[i]))
					}
				}
				return expected
			}
			for i := range ops {
				op, ctx := ops[i], ctxs[i]
				in.Bodies = append(in.Bodies, func() string { return run(e, op, ctx) })
			}
			return in
		}}
}

// compileScenario: every thread COMPILES its own expression (Compile, or
// CompileWithNS when ns is non-nil) while the others do the same, then uses it.
func compileScenario(exprs []string, ns map[string]string) Scenario {
	var expected []string
	return Scenario{Name: fmt.Sprintf("compile %q ns=%v", exprs, ns), Group: "compile", Desc: "threads call Compile / CompileWithNS at the same time (parser, builder, function table) and evaluate the result",
		Make: func() *Instance {
			xpath.RegexpCache = xpath.NewLoadingCache(func(k interface{}) (interface{}, error) { return regexp.Compile(k.(string)) }, 64)
			in := &Instance{}
			for _, s := range exprs {
				s := s
				in.Bodies = append(in.Bodies, func() string {
					var e *xpath.Expr
					var err error
					if ns != nil {
						e, err = xpath.CompileWithNS(s, ns)
					} else {
						e, err = xpath.Compile(s)
					}
					if err != nil {
						return "compile-error: " + err.Error()
					}
					return run(e, "evaluate", 1) + " / " + run(e, "select", 3)
				})
			}
			bodies := in.Bodies
			in.Expect = func() []string {
				if expected == nil {
					for _, b := range bodies {
						expected = append(expected, b())
					}
				}
				return expected
			}
			return in
		}}
}

// Exprs is the C05 expression list: every query-node type and every function
// closure (the state lives there).
func Exprs() (plain, closures, closurePreds []string) {
	plain = []string{
		"//a", "//b", ".//b", "*", "*/*", "@*", "//@x", "..", "ancestor::*", "ancestor-or-self::*", "following::*", "preceding::*", "following-sibling::*",
		"preceding-sibling::*", "descendant::a/descendant::b", "descendant::a//b", "//a//b", "a[b]", "*[2]", "*[last()]", "//b[1]", "(//a)[2]", "(//b)[last()]",
		"a | b", "//a | //b", "*/(a, b)", "//*[b]", "//*[@x > 1]", "//*[ancestor::a]", "//*[following::b][1]", "//*[position() < 3]", "//a[b and @x]", "//*[a | b]",
		"a = '1'", "//b = '1'", "* = 'zz'", "//@x > 1", "1 < //@x", "//a = //b", "* != *", "(//b)[1] = '1'", "a and b", "//a or //nosuch", "-(//@x)", "//@x + 1",
		"count(//a) + count(*)", "a mod 2",
		// operators whose operands are operators over paths (every level of an operator tree must be private to a call)
		"//@x * 2 + 1", "@x + @a + 1", "(//@x > 1) = (//a = '1')", "//*[@x * 2 + 1 = 3]", "count(//*[@x + @a = 2])", "-(//@x + 1)", "(a or b) and (//@x > 1)",
		"//@x + 1 > count(*) - 1", "not(a) = (//@x > 1)", "//@x div 2 mod 2", "//*[(@x > 1) = (@a > 1)]", "(a and b) or (//b and //nosuch)", "1 + (2 * (//@x - 1))",
		"//text()", "text()", "self::a", "parent::a/b", "//*[. = '1']", "//*[not(b)]", "//a[count(b) = 1]",
	}
	closures = []string{
		"count(//a)", "count(*)", "sum(//@x)", "string(//b)", "string(*)", "name(*)", "local-name(//a)", "namespace-uri(*)", "concat(a, b)", "concat(//b, '-', //@x)",
		"string-join(//b, ',')", "string-join(//@x, //b)", "string-join(*, '|')", "reverse(*)", "reverse(//a)", "normalize-space(//b)", "normalize-space(.)", "substring(//b, 1)",
		"substring-before(//@x, '1')", "substring-after(a, b)", "string-length(//b)", "contains(//b, '1')", "starts-with(//@x, '1')", "ends-with(a, b)",
		"translate(//b, '1', '2')", "lower-case(//b)", "not(a)", "boolean(//a)", "number(//@x)", "floor(//@x)", "ceiling(*)", "round(//@x)", "matches(//b, '1')",
		"replace(//b, '1', 'z')", "count(reverse(*))", "string(count(*))", "concat(string(a), name(b))", "not(not(a))", "count(//a[b])", "sum(*/@x)",
		"string-join(//*[b], ',')", "concat(string-join(*, ','), count(*))", "string(.)", "position()", "last()", "*[last() - 1]",
		"replace(//b, '(1)', '[$1]')", "replace(string(//@x), '(1)|(2)', '$2$1')", "replace(., '((1)(3))', '$3-$2-$1')", "matches(//b, '^(1|2)$')", "matches(string(.), '(1)(2)?(3)')",
		"string-length((//b)[1])", "count((//a)[1]/*)", "normalize-space((*)[last()])",
	}
	closurePreds = []string{
		"//*[name() = 'b']", "//*[string-length(.) > 0]", "//*[contains(., '1')]", "//*[string-join(*, ',') = '']", "//*[count(*) = 2]", "//*[normalize-space(.) = '1']",
		"//*[concat(., 'x') = '1x']", "//*[sum(@*) > 1]", "//*[string(b) = '1'][1]", "*[last()][count(*) > 0]",
	}
	return
}

// ---- regex cache / builder pool / loading cache scenarios -----------------

func regexScenario(p1, p2 string, capacity int) Scenario {
	var expected []string
	return Scenario{Name: fmt.Sprintf("compile+matches %q / %q cache cap %d", p1, p2, capacity), Group: "regex",
		Desc: "two threads Compile an expression with a constant matches() pattern (touching RegexpCache) and evaluate it",
		Make: func() *Instance {
			xpath.RegexpCache = xpath.NewLoadingCache(func(k interface{}) (interface{}, error) { return regexp.Compile(k.(string)) }, capacity)
			in := &Instance{}
			for _, p := range []string{p1, p2} {
				s := "matches(//b, '" + p + "')"
				body := func() string {
					e, err := xpath.Compile(s)
					if err != nil {
						return "compile-error"
					}
					return run(e, "evaluate", 0) + " / " + run(e, "evaluate", 2)
				}
				in.Bodies = append(in.Bodies, body)
			}
			bodies := in.Bodies
			in.Expect = func() []string {
				if expected == nil {
					// each body alone on a fresh cache (the scenario's cache is swapped
					// back afterwards)
					saved := xpath.RegexpCache
					for _, b := range bodies {
						xpath.RegexpCache = xpath.NewLoadingCache(func(k interface{}) (interface{}, error) { return regexp.Compile(k.(string)) }, capacity)
						expected = append(expected, b())
					}
					xpath.RegexpCache = saved
				}
				return expected
			}
			c := xpath.NewLoadingCache(func(k interface{}) (interface{}, error) { return regexp.Compile(k.(string)) }, capacity)
			xpath.RegexpCache = c
			in.Invariant = func() string {
				if n, capv := xpath.VerifCacheRaw(c); capv > 0 && n > capv {
					return fmt.Sprintf("RegexpCache holds %d entries, capacity %d", n, capv)
				}
				return ""
			}
			return in
		}}
}

func poolScenario(s1, s2 string) Scenario {
	var expected []string
	return Scenario{Name: "pool " + s1 + " / " + s2, Group: "pool", Desc: "two threads evaluate string-building functions that share the package's builder pool",
		Make: func() *Instance {
			e1, _ := xpath.Compile(s1)
			e2, _ := xpath.Compile(s2)
			in := &Instance{}
			in.Bodies = []func() string{
				func() string { return run(e1, "evaluate", 0) + " / " + run(e1, "evaluate", 1) },
				func() string { return run(e2, "evaluate", 1) + " / " + run(e2, "evaluate", 0) },
			}
			in.Expect = func() []string {
				if expected == nil {
					f1, _ := xpath.Compile(s1)
					f2, _ := xpath.Compile(s2)
					expected = []string{run(f1, "evaluate", 0) + " / " + run(f1, "evaluate", 1), run(f2, "evaluate", 1) + " / " + run(f2, "evaluate", 0)}
				}
				return expected
			}
			return in
		}}
}

// cacheScenario: threads call get on one loadingCache; keys[i] is the key
// sequence of thread i. "bad" always fails to load.
func cacheScenario(capacity int, keys [][]string) Scenario {
	return Scenario{Name: fmt.Sprintf("cache cap=%d gets=%v", capacity, keys), Group: "cache", Desc: "threads call get on one loadingCache over colliding keys",
		Make: func() *Instance {
			c := xpath.NewLoadingCache(func(k interface{}) (interface{}, error) {
				if k.(string) == "bad" {
					return nil, errors.New("load failed")
				}
				return "val(" + k.(string) + ")", nil
			}, capacity)
			in := &Instance{}
			var exp []string
			in.Expect = func() []string { return exp }
			for _, ks := range keys {
				ks := ks
				want := ""
				for _, k := range ks {
					if k == "bad" {
						want += "<nil>,load failed;"
					} else {
						want += "val(" + k + "),<nil>;"
					}
				}
				exp = append(exp, want)
				in.Bodies = append(in.Bodies, func() string {
					out := ""
					for _, k := range ks {
						v, err := xpath.VerifCacheGet(c, k)
						out += fmt.Sprintf("%v,%v;", v, err)
					}
					return out
				})
			}
			in.Invariant = func() string {
				if n, capv := xpath.VerifCacheRaw(c); capv > 0 && n > capv {
					return fmt.Sprintf("cache holds %d entries, capacity %d", n, capv)
				}
				return ""
			}
			return in
		}}
}

// List returns the scenarios of a tier, in a fixed order.
func List(tier string) []Scenario {
	var out []Scenario
	plain, closures, closurePreds := Exprs()
	pairs := [][]int{{0, 1}, {1, 3}}
	opsets := [][]string{{"select", "select"}, {"evaluate", "evaluate"}, {"select", "evaluate"}}
	add := func(group string, exprs []string) {
		for _, s := range exprs {
			for pi, cx := range pairs {
				for oi, ops := range opsets {
					if tier != "thorough" {
						// quick: one fixed cell of the (context pair, operation pair) grid per
						// group: plain paths select/evaluate from (a, b); closures
						// evaluate/evaluate from (a, b) — where the closure state is shared
						if group != "closure" && !(pi == 1 && oi == 2) || group == "closure" && !(pi == 1 && oi == 1) {
							continue
						}
					}
					out = append(out, exprScenario(group, s, ops, cx))
				}
			}
		}
	}
	add("expr", plain)
	add("closure", closures)
	add("closurepred", closurePreds)
	// a function call directly as the argument of another function: the inner
	// call is NOT cloned per evaluation by the engine, so whatever it keeps is shared
	inner := []string{"sum(//@x)", "count(//a)", "string(//b)", "name(*)", "string-join(//b, ',')", "normalize-space(//b)", "concat(//b, '-')", "number(//@x)", "string-length(//b)", "substring(//b, 1)", "not(a)", "local-name(//a)", "translate(//b, '1', '2')", "lower-case(//b)", "floor(//@x)", "sum(*/@x)"}
	outer := []string{"string(%s)", "number(%s)", "round(%s)", "boolean(%s)", "concat(%s, '')", "string-length(%s)", "not(%s)", "floor(%s)"}
	for i, in := range inner {
		for j, o := range outer {
			if tier != "thorough" && (i+j)%4 != 0 {
				continue
			}
			out = append(out, exprScenario("nested", fmt.Sprintf(o, in), []string{"evaluate", "evaluate"}, []int{1, 3}))
		}
	}
	// one representative per stateful query type, explored one preemption deeper
	for _, s := range []string{"//a | //b", "a[b]", "//*[ancestor::a]", "(//a)[2]", "*[last()]", "//a//b", "following::*", "*/(a, b)", "//b = '1'", "ancestor-or-self::*"} {
		out = append(out, exprScenario("expr2", s, []string{"evaluate", "select"}, []int{1, 3}))
	}
	if tier == "thorough" {
		for _, s := range append(append([]string{}, closures[:12]...), plain[:8]...) {
			out = append(out, exprScenario("three", s, []string{"evaluate", "select", "evaluate"}, []int{0, 1, 3}))
		}
	}
	// concurrent Compile calls (no shared expression: only package-level state can collide)
	out = append(out, compileScenario([]string{"//a[b]", "count(//a) + 1"}, nil), compileScenario([]string{"*[last()]", "*[last()]"}, nil),
		compileScenario([]string{"concat(a, 'x')", "a[1"}, nil), compileScenario([]string{"p:a", "//p:*"}, map[string]string{"p": "u"}),
		compileScenario([]string{"string-join(//b, ',')", "normalize-space(.)"}, nil),
		// one namespace map shared by the callers; a well-known prefix the map does not bind
		compileScenario([]string{"//@xml:lang", "//xml:a | //p:a"}, map[string]string{"p": "u"}), compileScenario([]string{"//xmlns:a", "//p:a[@xml:id]"}, map[string]string{"p": "u"}))
	if tier == "thorough" {
		out = append(out, compileScenario([]string{"//a", "//b", "a | b"}, nil))
	}
	for _, capacity := range []int{1, 2} {
		out = append(out, regexScenario("1", "1", capacity), regexScenario("1", "2+", capacity), regexScenario("(1", "1", capacity))
	}
	out = append(out, poolScenario("normalize-space(.)", "concat(a, b, //@x)"), poolScenario("normalize-space(//b)", "normalize-space(.)"), poolScenario("concat(*, '-')", "concat('x', .)"))
	// three threads inside the pooled string builders at once
	for _, s := range []string{"concat(a, b)", "normalize-space(.)", "concat(concat(a, '-'), normalize-space(b))"} {
		out = append(out, exprScenario("pool3", s, []string{"evaluate", "evaluate", "evaluate"}, []int{1, 3, 0}))
	}
	cacheKeys := [][][]string{
		{{"k1"}, {"k1"}}, {{"k1"}, {"k2"}}, {{"k1", "k2"}, {"k2", "k1"}}, {{"k1", "k1"}, {"k2"}}, {{"bad"}, {"k1"}}, {{"bad", "k1"}, {"k1", "bad"}}, {{"k1", "k3"}, {"k2", "k1"}},
	}
	for _, capacity := range []int{1, 2} {
		for _, ks := range cacheKeys {
			out = append(out, cacheScenario(capacity, ks))
		}
		out = append(out, cacheScenario(capacity, [][]string{{"k1"}, {"k2"}, {"k1"}}), cacheScenario(capacity, [][]string{{"k1"}, {"k2"}, {"k3"}}))
	}
	sort.SliceStable(out, func(i, j int) bool { return false })
	return out
}

// Command mcrace is the free-running half of the concurrency checks: it runs
// the thread bodies of one scenario on real goroutines released from a
// barrier, several times, and is built with -race. A race report makes the
// process exit with GORACE's exit code; a wrong result with status 1.
//
//	mcrace <tier> <scenario-index> <runs>
package main

import (
	"fmt"
	"os"
	"strconv"
	"sync"

	"verif/mc/scen"
)

func main() {
	tier := os.Args[1]
	idx, _ := strconv.Atoi(os.Args[2])
	runs, _ := strconv.Atoi(os.Args[3])
	list := scen.List(tier)
	if idx < 0 || idx >= len(list) {
		fmt.Println("bad scenario index")
		os.Exit(3)
	}
	sc := list[idx]
	bad := false
	for r := 0; r < runs; r++ {
		in := sc.Make()
		obs := make([]string, len(in.Bodies))
		var wg sync.WaitGroup
		start := make(chan struct{})
		for i, b := range in.Bodies {
			wg.Add(1)
			go func(i int, b func() string) {
				defer wg.Done()
				defer func() {
					if rec := recover(); rec != nil {
						obs[i] = fmt.Sprintf("panic: %v", rec)
					}
				}()
				<-start
				obs[i] = b()
			}(i, b)
		}
		close(start)
		wg.Wait()
		// the expectation is computed only now: run 0 met cold package state
		exp := in.Expect()
		for i := range obs {
			if obs[i] != exp[i] {
				fmt.Printf("WRONG RESULT in %s (run %d): thread %d observed %s, alone it observes %s\n", sc.Name, r, i, obs[i], exp[i])
				bad = true
			}
		}
	}
	if bad {
		os.Exit(1)
	}
}

// Command mc is the model-checking harness for antchfx/xpath.
//
//	mc check <ID> <quick|thorough>   run a property check (coordinator)
//	mc worker ...                    internal: one shard
//	mc item <ID> <tier> <space> <i>  run one item in isolation
//	mc replay <file>                 re-execute a recorded violation
//	mc selftest                      check the reference model against itself
//	mc list                          list registered properties
package main

import (
	"fmt"
	"os"
	"strconv"
	"time"

	"verif/mc/explore"
	"verif/mc/instr"
	"verif/mc/props"
	"verif/mc/report"
)

func main() {
	if len(os.Args) < 2 {
		fmt.Fprintln(os.Stderr, "usage: mc check|worker|item|replay|selftest|list ...")
		os.Exit(2)
	}
	switch os.Args[1] {
	case "list":
		for _, id := range explore.IDs() {
			fmt.Println(id)
		}
	case "selftest":
		if err := props.SelfTest(); err != nil {
			fmt.Fprintln(os.Stderr, "SELFTEST FAILED:", err)
			os.Exit(2)
		}
		fmt.Println("selftest ok")
	case "check":
		if len(os.Args) < 4 {
			fmt.Fprintln(os.Stderr, "usage: mc check <ID> <tier>")
			os.Exit(2)
		}
		if err := props.SelfTest(); err != nil {
			fmt.Fprintln(os.Stderr, "SELFTEST FAILED:", err)
			os.Exit(2)
		}
		os.Exit(explore.Check(os.Args[2], os.Args[3]))
	case "worker":
		a := os.Args[2:]
		p := explore.Lookup(a[0])
		shard, _ := strconv.Atoi(a[2])
		n, _ := strconv.Atoi(a[3])
		dl, _ := strconv.ParseInt(a[4], 10, 64)
		if err := explore.RunWorker(p, a[1], shard, n, time.Unix(0, dl), a[5]); err != nil {
			fmt.Fprintln(os.Stderr, err)
			os.Exit(3)
		}
	case "item":
		a := os.Args[2:]
		p := explore.Lookup(a[0])
		idx, _ := strconv.Atoi(a[3])
		w, err := explore.RunItem(p, a[1], a[2], idx)
		if err != nil {
			fmt.Fprintln(os.Stderr, err)
			os.Exit(3)
		}
		fmt.Printf("item ok: evals=%d violations=%d\n", w.Evals, len(w.Viol))
		for _, c := range w.Viol {
			fmt.Printf("  sig=%s expr=%s tree=%s ctx=%s expected=%s got=%s\n", c.Sig, c.Expr, c.TreeS, c.CtxS, c.Expected, c.Got)
		}
	case "labels":
		// mc labels <ID> <tier> <space>: index and label of every item
		for _, sp := range explore.Lookup(os.Args[2]).Spaces(os.Args[3]) {
			if sp.Name == os.Args[4] && sp.Label != nil {
				for i := 0; i < sp.Size; i++ {
					fmt.Printf("%d\t%s\n", i, sp.Label(i))
				}
			}
		}
	case "instrument":
		// mc instrument <repo> <outdir> <shimdir>
		n, err := instr.Run(os.Args[2], os.Args[3], os.Args[4])
		if err != nil {
			fmt.Fprintln(os.Stderr, "instrument:", err)
			os.Exit(2)
		}
		fmt.Printf("instrumented %d statement points\n", n)
	case "nestcase":
		d, _ := strconv.Atoi(os.Args[3])
		props.NestCase(os.Args[2], d)
	case "replay":
		c, err := report.LoadCase(os.Args[2])
		if err != nil {
			fmt.Fprintln(os.Stderr, err)
			os.Exit(2)
		}
		obs, ok, err := report.Replay(c)
		if err != nil {
			fmt.Fprintln(os.Stderr, "replay error:", err)
			os.Exit(2)
		}
		fmt.Printf("property=%s kind=%s\nexpr=%s\ntree=%s ctx=%s op=%s\nexpected=%s\nobserved=%s\n", c.Property, c.Kind, c.Expr, c.TreeS, c.CtxS, c.Op, c.Expected, obs)
		if !ok {
			fmt.Printf("VIOLATION property=%s replay=%s\n", c.Property, os.Args[2])
			os.Exit(1)
		}
		fmt.Println("replay: property holds on this case")
	default:
		fmt.Fprintln(os.Stderr, "unknown command", os.Args[1])
		os.Exit(2)
	}
}

// Package report holds replayable cases, known-finding matching and the
// evidence writer.
package report

import (
	"runtime"
	"bufio"
	"crypto/sha1"
	"encoding/hex"
	"encoding/json"
	"fmt"
	"os"
	"path/filepath"
	"regexp"
	"sort"
	"strings"

	"verif/mc/doc"
)

// Case is one fully described, replayable execution together with what the
// oracle expected. It is what a replay file contains.
type Case struct {
	Property string `json:"property"`
	Space    string `json:"space,omitempty"`
	Kind     string `json:"kind"` // replayer name: eval | compile | parse | history | proto | cache | sched ...

	Expr   string            `json:"expr,omitempty"`
	WithNS bool              `json:"with_ns,omitempty"`
	NS     map[string]string `json:"ns,omitempty"`
	NavNS  bool              `json:"nav_ns,omitempty"`
	Tree   []doc.Spec        `json:"tree,omitempty"`
	TreeS  string            `json:"tree_text,omitempty"` // human rendering
	Ctx    int               `json:"ctx,omitempty"`
	CtxS   string            `json:"ctx_text,omitempty"`
	Op     string            `json:"op,omitempty"` // select | evaluate
	Mode   string            `json:"mode,omitempty"`

	// Extra carries kind-specific payload (histories, schedules, ...).
	Extra map[string]interface{} `json:"extra,omitempty"`

	Expected string `json:"expected"`
	Got      string `json:"got"`
	Class    string `json:"class"`
	Sig      string `json:"signature"`
	Note     string `json:"note,omitempty"`
	Count    int64  `json:"count,omitempty"` // how many explored cases share this signature
	Weight   int    `json:"-"`               // smaller = simpler witness
}

// Replayer re-executes a case without any explorer and returns the observed
// outcome in the same normal form as Case.Expected / Case.Got, plus whether
// the oracle is satisfied.
type Replayer func(c *Case) (observed string, ok bool, err error)

var replayers = map[string]Replayer{}

func RegisterReplayer(kind string, r Replayer) { replayers[kind] = r }

func Replay(c *Case) (string, bool, error) {
	r := replayers[c.Kind]
	if r == nil {
		return "", false, fmt.Errorf("no replayer for case kind %q", c.Kind)
	}
	// one P while replaying: process-global sync.Pool state (per-P slots) then
	// behaves the same way from run to run
	defer runtime.GOMAXPROCS(runtime.GOMAXPROCS(1))
	return r(c)
}

func (c *Case) Save(dir string) (string, error) {
	b, err := json.MarshalIndent(c, "", " ")
	if err != nil {
		return "", err
	}
	h := sha1.Sum([]byte(c.Sig + "\x00" + c.Expr + "\x00" + c.TreeS))
	if err := os.MkdirAll(dir, 0o755); err != nil {
		return "", err
	}
	p := filepath.Join(dir, hex.EncodeToString(h[:6])+".json")
	return p, os.WriteFile(p, append(b, '\n'), 0o644)
}

func LoadCase(path string) (*Case, error) {
	b, err := os.ReadFile(path)
	if err != nil {
		return nil, err
	}
	var c Case
	if err := json.Unmarshal(b, &c); err != nil {
		return nil, err
	}
	return &c, nil
}

// ------------------------------------------------------ known findings ----

// Finding is one line of known_findings.txt.
//
//	open: property=C15 id=round-int sig=/regex/ :: description
//	fixed: property=C02 <commit> <what failed>
type Finding struct {
	Open     bool
	Property string
	ID       string
	Sig      *regexp.Regexp
	What     string
	Witness  string // path of a replay file under /verif/known/
}

func LoadFindings(path string) ([]Finding, error) {
	f, err := os.Open(path)
	if err != nil {
		if os.IsNotExist(err) {
			return nil, nil
		}
		return nil, err
	}
	defer f.Close()
	var out []Finding
	sc := bufio.NewScanner(f)
	sc.Buffer(make([]byte, 1<<20), 1<<20)
	ln := 0
	for sc.Scan() {
		ln++
		line := strings.TrimSpace(sc.Text())
		if line == "" || strings.HasPrefix(line, "#") {
			continue
		}
		switch {
		case strings.HasPrefix(line, "fixed:"):
			rest := strings.TrimSpace(strings.TrimPrefix(line, "fixed:"))
			fd := Finding{Open: false, What: rest}
			for _, w := range strings.Fields(rest) {
				if strings.HasPrefix(w, "property=") {
					fd.Property = strings.TrimPrefix(w, "property=")
				}
			}
			out = append(out, fd)
		case strings.HasPrefix(line, "open:"):
			rest := strings.TrimSpace(strings.TrimPrefix(line, "open:"))
			head, what := rest, ""
			if i := strings.Index(rest, " :: "); i >= 0 {
				head, what = rest[:i], rest[i+4:]
			}
			fd := Finding{Open: true, What: what}
			// sig=/.../ may contain spaces: cut it out first
			if i := strings.Index(head, "sig=/"); i >= 0 {
				j := strings.LastIndex(head, "/")
				if j <= i+4 {
					return nil, fmt.Errorf("%s:%d: unterminated sig", path, ln)
				}
				re, err := regexp.Compile(head[i+5 : j])
				if err != nil {
					return nil, fmt.Errorf("%s:%d: %v", path, ln, err)
				}
				fd.Sig = re
				head = head[:i] + head[j+1:]
			}
			for _, w := range strings.Fields(head) {
				switch {
				case strings.HasPrefix(w, "property="):
					fd.Property = strings.TrimPrefix(w, "property=")
				case strings.HasPrefix(w, "id="):
					fd.ID = strings.TrimPrefix(w, "id=")
				case strings.HasPrefix(w, "witness="):
					fd.Witness = strings.TrimPrefix(w, "witness=")
				}
			}
			if fd.Property == "" || fd.ID == "" || fd.Sig == nil {
				return nil, fmt.Errorf("%s:%d: open finding needs property=, id=, sig=/../", path, ln)
			}
			out = append(out, fd)
		default:
			return nil, fmt.Errorf("%s:%d: unrecognised line", path, ln)
		}
	}
	return out, sc.Err()
}

// Match returns the open finding of the property whose signature pattern
// matches sig, or nil.
func Match(fs []Finding, property, sig string) *Finding {
	for i := range fs {
		f := &fs[i]
		if f.Open && f.Property == property && f.Sig.MatchString(sig) {
			return f
		}
	}
	return nil
}

// ------------------------------------------------------------ evidence ----

type Evidence struct {
	PropertyID  string                 `json:"property_id"`
	Tier        string                 `json:"tier"`
	Seed        int                    `json:"seed"`
	Level       string                 `json:"level"`
	Coverage    map[string]interface{} `json:"coverage"`
	Assumptions []string               `json:"assumptions,omitempty"`
	WallS       float64                `json:"wall_s"`
	Violations  int                    `json:"violations"`
}

func (e *Evidence) Write(path string) error {
	b, err := json.MarshalIndent(e, "", " ")
	if err != nil {
		return err
	}
	if err := os.MkdirAll(filepath.Dir(path), 0o755); err != nil {
		return err
	}
	return os.WriteFile(path, append(b, '\n'), 0o644)
}

// SortCases orders cases simplest-first.
func SortCases(cs []*Case) {
	sort.SliceStable(cs, func(i, j int) bool {
		if cs[i].Weight != cs[j].Weight {
			return cs[i].Weight < cs[j].Weight
		}
		return cs[i].Sig < cs[j].Sig
	})
}

// ReplayerFor reports whether a replayer is registered for kind.
func ReplayerFor(kind string) (Replayer, bool) {
	r, ok := replayers[kind]
	return r, ok
}

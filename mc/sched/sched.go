//go:build sched

// Package sched is explorer C: a cooperative scheduler that runs 2-3 "threads"
// (goroutines that only run while they hold the baton) over the instrumented
// package, and a stateless depth-first search over scheduling choices with a
// preemption bound.
package sched

import (
	"fmt"
	"runtime"

	"github.com/antchfx/xpath/verifrt"
	"github.com/antchfx/xpath/verifsync"
)

// PointInfo describes one scheduling decision.
type PointInfo struct {
	Enabled        int  // number of enabled threads (canonical order: running first, then ascending id)
	RunningEnabled bool // the running thread could have continued
	Site           int
	Thread         int // thread that reached the point (-1: start / after exit)
}

// Result is one complete execution.
type Result struct {
	Choices   []int
	Points    []PointInfo
	Obs       []string // per-thread observation (return value or "panic: ...")
	Deadlock  bool
	Invariant string  // first invariant failure ("" = none)
	Trace     []int32 // (thread<<24 | site&0xffffff) per point
	Diverged  string  // replay divergence (harness error, never a violation)
}

type thread struct {
	id        int
	wake      chan struct{}
	done      bool
	blockedOn interface{}
	body      func() string
}

type exec struct {
	threads   []*thread
	cur       int
	prefix    []int
	res       *Result
	mainWake  chan struct{}
	invariant func() string
	finished  bool
}

var current *exec

// Run executes bodies under the scheduler following prefix, then always taking
// choice 0. invariant (optional) is evaluated at every scheduling point.
func Run(bodies []func() string, prefix []int, invariant func() string) *Result {
	e := &exec{cur: -1, prefix: prefix, res: &Result{Obs: make([]string, len(bodies))}, mainWake: make(chan struct{}), invariant: invariant}
	for i, b := range bodies {
		th := &thread{id: i, wake: make(chan struct{}), body: b}
		e.threads = append(e.threads, th)
		go func(th *thread) {
			<-th.wake
			e.res.Obs[th.id] = safely(th.body)
			th.done = true
			e.leave()
		}(th)
	}
	current = e
	verifsync.ResetAll()
	verifrt.Install(e.point)
	verifrt.Acquire = e.acquire
	verifrt.Released = e.released
	verifrt.Enable()
	e.switchFrom(nil, -1) // pick the first thread
	<-e.mainWake
	verifrt.Disable()
	current = nil
	return e.res
}

func safely(f func() string) (s string) {
	defer func() {
		if r := recover(); r != nil {
			if _, ok := r.(divergence); ok {
				panic(r)
			}
			if re, ok := r.(runtime.Error); ok {
				s = "panic(runtime): " + re.Error()
				return
			}
			s = fmt.Sprintf("panic: %v", r)
		}
	}()
	return f()
}

type divergence struct{ msg string }

// enabledList returns the enabled threads in canonical order.
func (e *exec) enabledList() ([]*thread, bool) {
	var out []*thread
	runningEnabled := false
	if e.cur >= 0 {
		c := e.threads[e.cur]
		if !c.done && c.blockedOn == nil {
			out = append(out, c)
			runningEnabled = true
		}
	}
	for _, t := range e.threads {
		if t.id != e.cur && !t.done && t.blockedOn == nil {
			out = append(out, t)
		}
	}
	return out, runningEnabled
}

// decide records a scheduling point and returns the thread to run next (nil:
// nothing enabled).
func (e *exec) decide(site, by int) *thread {
	if e.invariant != nil && e.res.Invariant == "" {
		if msg := e.invariant(); msg != "" {
			e.res.Invariant = fmt.Sprintf("at point %d (site %d, thread %d): %s", len(e.res.Points), site, by, msg)
		}
	}
	en, re := e.enabledList()
	if len(en) == 0 {
		return nil
	}
	i := len(e.res.Choices)
	ch := 0
	if i < len(e.prefix) {
		ch = e.prefix[i]
		if ch < 0 || ch >= len(en) {
			e.res.Diverged = fmt.Sprintf("REPLAY-DIVERGENCE at point %d: choice %d of %d enabled", i, ch, len(en))
			ch = 0
		}
	}
	e.res.Choices = append(e.res.Choices, ch)
	e.res.Points = append(e.res.Points, PointInfo{Enabled: len(en), RunningEnabled: re, Site: site, Thread: by})
	e.res.Trace = append(e.res.Trace, int32(by+1)<<24|int32(site&0xffffff))
	return en[ch]
}

// MaxPoints bounds one execution (typical executions have a few hundred
// scheduling points): a thread that reaches a point beyond it is unwound with
// a panic, so that code spinning without end becomes an observable outcome
// ("did not terminate") instead of an exploration that never ends.
const MaxPoints = 400_000

// point is the hook called before every statement / sync operation.
func (e *exec) point(site int) {
	if len(e.res.Points) > MaxPoints {
		panic(fmt.Sprintf("did not terminate: more than %d scheduling points in one execution (site %d)", MaxPoints, site))
	}
	me := e.threads[e.cur]
	next := e.decide(site, me.id)
	if next != me {
		e.switchFrom(me, next.id)
	}
}

// switchFrom hands the baton to thread `to` (or decides, when to < 0) and
// parks the caller (nil = the main goroutine, which is not parked here).
func (e *exec) switchFrom(me *thread, to int) {
	if to < 0 {
		next := e.decide(0, -1)
		if next == nil {
			e.finish()
			return
		}
		to = next.id
	}
	e.cur = to
	e.threads[to].wake <- struct{}{}
	if me != nil {
		<-me.wake
	}
}

// leave is called by a thread whose body returned.
func (e *exec) leave() {
	next := e.decide(0, e.cur)
	if next == nil {
		e.finish()
		return
	}
	e.cur = next.id
	next.wake <- struct{}{}
}

func (e *exec) finish() {
	if e.finished {
		return
	}
	e.finished = true
	for _, t := range e.threads {
		if !t.done {
			e.res.Deadlock = true
		}
	}
	e.mainWake <- struct{}{}
}

// acquire blocks the calling thread until try succeeds.
func (e *exec) acquire(obj interface{}, try func() bool) {
	me := e.threads[e.cur]
	for !try() {
		me.blockedOn = obj
		next := e.decide(0, me.id)
		if next == nil {
			// deadlock: nobody can run; park forever (the execution is reported)
			e.finish()
			<-me.wake
			return
		}
		e.cur = next.id
		next.wake <- struct{}{}
		<-me.wake
	}
}

func (e *exec) released(obj interface{}) {
	for _, t := range e.threads {
		if t.blockedOn == obj {
			t.blockedOn = nil
		}
	}
}

// ---------------------------------------------------------------- search ---

// Stats of one exploration.
type Stats struct {
	Executions  int64
	Points      int64 // scheduling points executed (transitions)
	MaxPoints   int
	BoundDone   int // highest preemption bound completed
	Capped      bool
	Outcomes    map[string]int64 // distinct joint observations
	Divergences int64
}

// Explore enumerates every schedule with at most bound preemptions (iterating
// the bound 0..bound), calling check on each execution. check returns false to
// stop the search (after a violation). maxExec caps the work (0 = none).
func Explore(mk func() ([]func() string, func() string), bound int, maxExec int64, check func(*Result) bool) *Stats {
	return ExploreSlice(mk, bound, maxExec, 0, 1, check)
}

// ExploreSlice explores the part of the schedule tree whose FIRST deviation
// from the default schedule happens at a point i with i % nslices == slice
// (the default schedule itself belongs to every slice). The slices partition
// the bounded schedule space, so a scenario can be spread over processes.
func ExploreSlice(mk func() ([]func() string, func() string), bound int, maxExec int64, slice, nslices int, check func(*Result) bool) *Stats {
	st := &Stats{Outcomes: map[string]int64{}, BoundDone: -1}
	stop := false
	// pending: the slice filter has not been applied yet on this path (it is
	// applied at the first deviation that is not the initial thread choice, so
	// that the "other thread starts" half of the tree is split as well)
	var rec func(prefix []int, budget int, pending bool)
	rec = func(prefix []int, budget int, pending bool) {
		if stop {
			return
		}
		if maxExec > 0 && st.Executions >= maxExec {
			st.Capped = true
			stop = true
			return
		}
		bodies, inv := mk()
		x := Run(bodies, prefix, inv)
		st.Executions++
		st.Points += int64(len(x.Points))
		if len(x.Points) > st.MaxPoints {
			st.MaxPoints = len(x.Points)
		}
		if x.Diverged != "" {
			st.Divergences++
		}
		st.Outcomes[fmt.Sprint(x.Obs, x.Deadlock)]++
		if !check(x) {
			stop = true
			return
		}
		// preemptions used by the prefix part are already paid: budget is what
		// remains for points >= len(prefix)
		for i := len(prefix); i < len(x.Points) && !stop; i++ {
			p := x.Points[i]
			next := false
			if pending {
				if i == 0 && p.Thread < 0 {
					next = true // initial choice: keep slicing below it
				} else if i%nslices != slice {
					continue
				}
			}
			cost := 0
			if p.RunningEnabled {
				cost = 1
			}
			if cost > budget {
				continue
			}
			for alt := 1; alt < p.Enabled; alt++ {
				np := append(append(make([]int, 0, i+1), x.Choices[:i]...), alt)
				rec(np, budget-cost, next)
			}
		}
	}
	// iterate the bound: executions with fewer preemptions come first. The
	// search for bound b re-visits those of b-1; only the final bound's count
	// is reported (plus which bound completed).
	for b := 0; b <= bound && !stop; b++ {
		*st = Stats{Outcomes: map[string]int64{}, BoundDone: st.BoundDone}
		rec(nil, b, true)
		if !stop {
			st.BoundDone = b
		}
	}
	return st
}

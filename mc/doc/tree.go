// Package doc is the environment model: finite document trees and lawful
// NodeNavigator cursors over them.
package doc

import (
	"fmt"
	"strings"
)

type Kind uint8

const (
	Root Kind = iota
	Elem
	Attr
	Text
	Comment
)

func (k Kind) String() string {
	return [...]string{"root", "element", "attribute", "text", "comment"}[k]
}

// Node is one arena slot. The arena index IS the document-order index:
// an element precedes its attributes, which precede its children.
type Node struct {
	Kind     Kind
	Prefix   string
	Local    string
	NS       string // namespace URI
	Val      string // text / comment / attribute value
	Parent   int    // -1 for root
	Children []int  // content children (no attributes)
	Attrs    []int
	Prev     int // previous content sibling or -1
	Next     int // next content sibling or -1
	AttrPos  int // index inside parent's Attrs (attributes only)
}

type Tree struct {
	Nodes []Node
	sv    []string // cached string-values
}

// Spec is the nested literal a tree is built from (and serialised as).
type Spec struct {
	K string  `json:"k"`           // "e","t","c"
	N string  `json:"n,omitempty"` // qualified name (elements)
	U string  `json:"u,omitempty"` // namespace URI
	V string  `json:"v,omitempty"` // value (text/comment)
	A []AttrS `json:"a,omitempty"`
	C []Spec  `json:"c,omitempty"`
}

type AttrS struct {
	N string `json:"n"`
	U string `json:"u,omitempty"`
	V string `json:"v"`
}

func splitQ(q string) (string, string) {
	if i := strings.IndexByte(q, ':'); i >= 0 {
		return q[:i], q[i+1:]
	}
	return "", q
}

// Build makes a tree whose root has the given top-level content.
func Build(top []Spec) *Tree {
	t := &Tree{}
	t.Nodes = append(t.Nodes, Node{Kind: Root, Parent: -1, Prev: -1, Next: -1})
	t.addChildren(0, top)
	t.sv = make([]string, len(t.Nodes))
	for i := range t.Nodes {
		t.sv[i] = t.computeSV(i)
	}
	return t
}

func (t *Tree) addChildren(parent int, cs []Spec) {
	prev := -1
	for _, c := range cs {
		idx := len(t.Nodes)
		n := Node{Parent: parent, Prev: prev, Next: -1}
		switch c.K {
		case "e":
			n.Kind = Elem
			n.Prefix, n.Local = splitQ(c.N)
			n.NS = c.U
		case "t":
			n.Kind = Text
			n.Val = c.V
		case "c":
			n.Kind = Comment
			n.Val = c.V
		default:
			panic("bad spec kind " + c.K)
		}
		t.Nodes = append(t.Nodes, n)
		if prev >= 0 {
			t.Nodes[prev].Next = idx
		}
		t.Nodes[parent].Children = append(t.Nodes[parent].Children, idx)
		prev = idx
		if c.K == "e" {
			for ai, a := range c.A {
				aidx := len(t.Nodes)
				an := Node{Kind: Attr, Parent: idx, Prev: -1, Next: -1, Val: a.V, NS: a.U, AttrPos: ai}
				an.Prefix, an.Local = splitQ(a.N)
				t.Nodes = append(t.Nodes, an)
				t.Nodes[idx].Attrs = append(t.Nodes[idx].Attrs, aidx)
			}
			t.addChildren(idx, c.C)
		}
	}
}

func (t *Tree) computeSV(i int) string {
	n := &t.Nodes[i]
	switch n.Kind {
	case Attr, Text, Comment:
		return n.Val
	}
	var sb strings.Builder
	var rec func(int)
	rec = func(j int) {
		m := &t.Nodes[j]
		if m.Kind == Text {
			sb.WriteString(m.Val)
		}
		for _, c := range m.Children {
			rec(c)
		}
	}
	rec(i)
	return sb.String()
}

// StringValue is the XPath string-value of node i.
func (t *Tree) StringValue(i int) string { return t.sv[i] }

func (t *Tree) Len() int { return len(t.Nodes) }

// ToSpec is the inverse of Build.
func (t *Tree) ToSpec() []Spec { return t.specOf(0) }

func (t *Tree) specOf(i int) []Spec {
	var out []Spec
	for _, c := range t.Nodes[i].Children {
		n := &t.Nodes[c]
		switch n.Kind {
		case Elem:
			s := Spec{K: "e", N: qn(n), U: n.NS}
			for _, a := range n.Attrs {
				an := &t.Nodes[a]
				s.A = append(s.A, AttrS{N: qn(an), U: an.NS, V: an.Val})
			}
			s.C = t.specOf(c)
			out = append(out, s)
		case Text:
			out = append(out, Spec{K: "t", V: n.Val})
		case Comment:
			out = append(out, Spec{K: "c", V: n.Val})
		}
	}
	return out
}

func qn(n *Node) string {
	if n.Prefix != "" {
		return n.Prefix + ":" + n.Local
	}
	return n.Local
}

// String renders the tree in the compact name(children) notation used in
// reports: a[@x=1](b,"txt",<!c>).
func (t *Tree) String() string {
	var sb strings.Builder
	var rec func(int)
	rec = func(i int) {
		n := &t.Nodes[i]
		switch n.Kind {
		case Root:
			sb.WriteString("/")
		case Elem:
			sb.WriteString(qn(n))
			if n.NS != "" {
				sb.WriteString("{" + n.NS + "}")
			}
			for _, a := range n.Attrs {
				an := &t.Nodes[a]
				sb.WriteString("[@" + qn(an))
				if an.NS != "" {
					sb.WriteString("{" + an.NS + "}")
				}
				sb.WriteString("=" + an.Val + "]")
			}
		case Text:
			fmt.Fprintf(&sb, "%q", n.Val)
			return
		case Comment:
			sb.WriteString("<!" + n.Val + ">")
			return
		}
		if len(n.Children) > 0 {
			sb.WriteString("(")
			for k, c := range n.Children {
				if k > 0 {
					sb.WriteString(",")
				}
				rec(c)
			}
			sb.WriteString(")")
		}
	}
	rec(0)
	return sb.String()
}

// Describe gives a short human description of node i ("element a #3").
func (t *Tree) Describe(i int) string {
	n := &t.Nodes[i]
	switch n.Kind {
	case Root:
		return "root#0"
	case Elem:
		return fmt.Sprintf("element %s#%d", qn(n), i)
	case Attr:
		return fmt.Sprintf("attribute %s#%d", qn(n), i)
	case Text:
		return fmt.Sprintf("text#%d", i)
	}
	return fmt.Sprintf("comment#%d", i)
}

package doc

// Universe describes a finite, ordered set of documents T(N, Σ, D, V).
type Universe struct {
	MinN, MaxN int      // number of content nodes (elements, text, comments)
	Names      []string // element names Σ
	NoText     bool
	NoComment  bool
	Attr       string   // "none", "rule", "full"
	AttrNames  []string // default {"x","y"}
	Vals       []string // value alphabet for text/comment/attribute values
	ValFull    bool     // assign values exhaustively (else cyclically)
	NoAdjText  bool     // forbid two adjacent text siblings (XML data model)
}

// shapes enumerates all ordered forests with exactly n content nodes.
func (u *Universe) shapes(n int) [][]Spec {
	memoF := map[int][][]Spec{}
	var forest func(int) [][]Spec
	var tree func(int) []Spec
	tree = func(k int) []Spec {
		var out []Spec
		if k == 1 {
			if !u.NoText {
				out = append(out, Spec{K: "t"})
			}
			if !u.NoComment {
				out = append(out, Spec{K: "c"})
			}
		}
		for _, nm := range u.Names {
			for _, cf := range forest(k - 1) {
				out = append(out, Spec{K: "e", N: nm, C: cf})
			}
		}
		return out
	}
	forest = func(m int) [][]Spec {
		if f, ok := memoF[m]; ok {
			return f
		}
		var out [][]Spec
		if m == 0 {
			out = [][]Spec{nil}
		} else {
			for k := 1; k <= m; k++ {
				for _, first := range tree(k) {
					for _, rest := range forest(m - k) {
						if u.NoAdjText && first.K == "t" && len(rest) > 0 && rest[0].K == "t" {
							continue
						}
						f := make([]Spec, 0, 1+len(rest))
						f = append(f, first)
						f = append(f, rest...)
						out = append(out, f)
					}
				}
			}
		}
		memoF[m] = out
		return out
	}
	return forest(n)
}

func cloneSpecs(s []Spec) []Spec {
	if s == nil {
		return nil
	}
	out := make([]Spec, len(s))
	for i := range s {
		out[i] = s[i]
		out[i].C = cloneSpecs(s[i].C)
		if s[i].A != nil {
			out[i].A = append([]AttrS(nil), s[i].A...)
		}
	}
	return out
}

// slots collects pointers to every value slot (text, comment, attribute) and
// every element in document order.
func slots(s []Spec, elems *[]*Spec, vals *[]*string) {
	for i := range s {
		switch s[i].K {
		case "e":
			*elems = append(*elems, &s[i])
			for j := range s[i].A {
				*vals = append(*vals, &s[i].A[j].V)
			}
			slots(s[i].C, elems, vals)
		default:
			*vals = append(*vals, &s[i].V)
		}
	}
}

// Enumerate yields every document of the universe, smallest first.
func (u *Universe) Enumerate(yield func(*Tree)) {
	attrNames := u.AttrNames
	if attrNames == nil {
		attrNames = []string{"x", "y"}
	}
	vals := u.Vals
	if len(vals) == 0 {
		vals = []string{"1"}
	}
	for n := u.MinN; n <= u.MaxN; n++ {
		for _, shape := range u.shapes(n) {
			// attribute decorations
			var decorated [][]Spec
			switch u.Attr {
			case "", "none":
				decorated = [][]Spec{cloneSpecs(shape)}
			case "rule":
				s := cloneSpecs(shape)
				var elems []*Spec
				var vs []*string
				slots(s, &elems, &vs)
				for e, el := range elems {
					switch e % 4 {
					case 1:
						el.A = []AttrS{{N: attrNames[0]}}
					case 2:
						el.A = []AttrS{{N: attrNames[0]}, {N: attrNames[1%len(attrNames)]}}
					case 3:
						el.A = []AttrS{{N: attrNames[1%len(attrNames)]}}
					}
				}
				decorated = [][]Spec{s}
			case "full":
				base := cloneSpecs(shape)
				var elems []*Spec
				var vs []*string
				slots(base, &elems, &vs)
				ne := len(elems)
				nsub := 1 << uint(len(attrNames))
				total := 1
				for i := 0; i < ne; i++ {
					total *= nsub
				}
				for code := 0; code < total; code++ {
					s := cloneSpecs(shape)
					var el2 []*Spec
					var v2 []*string
					slots(s, &el2, &v2)
					c := code
					for _, el := range el2 {
						sub := c % nsub
						c /= nsub
						for b, an := range attrNames {
							if sub&(1<<uint(b)) != 0 {
								el.A = append(el.A, AttrS{N: an})
							}
						}
					}
					decorated = append(decorated, s)
				}
			}
			for _, d := range decorated {
				var elems []*Spec
				var vs []*string
				slots(d, &elems, &vs)
				if !u.ValFull || len(vs) == 0 {
					for i, p := range vs {
						*p = vals[i%len(vals)]
					}
					yield(Build(d))
					continue
				}
				total := 1
				for range vs {
					total *= len(vals)
				}
				for code := 0; code < total; code++ {
					c := code
					for _, p := range vs {
						*p = vals[c%len(vals)]
						c /= len(vals)
					}
					yield(Build(d))
				}
			}
		}
	}
}

// All materialises the universe.
func (u *Universe) All() []*Tree {
	var out []*Tree
	u.Enumerate(func(t *Tree) { out = append(out, t) })
	return out
}

package doc

import (
	"github.com/antchfx/xpath"
)

// Budget is shared by all copies of one cursor: it counts navigator calls so
// that non-termination is decided deterministically (no wall clock).
type Budget struct {
	Calls int64
	Limit int64 // 0 = unlimited
	Hook  func() // optional: called on every navigator call (scheduler points)
}

// BudgetExceeded is the panic value raised when a run makes more navigator
// calls than its budget allows.
type BudgetExceeded struct{}

func (BudgetExceeded) Error() string { return "navigator call budget exceeded (non-termination)" }

type core struct {
	T   *Tree
	Cur int
	B   *Budget
}

func (c *core) tick() {
	if c.B != nil {
		c.B.Calls++
		if c.B.Limit > 0 && c.B.Calls > c.B.Limit {
			panic(BudgetExceeded{})
		}
		if c.B.Hook != nil {
			c.B.Hook()
		}
	}
}

func (c *core) NodeType() xpath.NodeType {
	c.tick()
	switch c.T.Nodes[c.Cur].Kind {
	case Root:
		return xpath.RootNode
	case Elem:
		return xpath.ElementNode
	case Attr:
		return xpath.AttributeNode
	case Text:
		return xpath.TextNode
	}
	return xpath.CommentNode
}

func (c *core) LocalName() string { c.tick(); return c.T.Nodes[c.Cur].Local }
func (c *core) Prefix() string    { c.tick(); return c.T.Nodes[c.Cur].Prefix }
func (c *core) Value() string     { c.tick(); return c.T.sv[c.Cur] }
func (c *core) MoveToRoot()       { c.tick(); c.Cur = 0 }

func (c *core) MoveToParent() bool {
	c.tick()
	if p := c.T.Nodes[c.Cur].Parent; p >= 0 {
		c.Cur = p
		return true
	}
	return false
}

// MoveToNextAttribute follows the convention of xmlquery/htmlquery and the
// repository's test navigator: from an element to its first attribute, from
// an attribute to the next attribute of the same element.
func (c *core) MoveToNextAttribute() bool {
	c.tick()
	n := &c.T.Nodes[c.Cur]
	switch n.Kind {
	case Elem:
		if len(n.Attrs) > 0 {
			c.Cur = n.Attrs[0]
			return true
		}
	case Attr:
		p := &c.T.Nodes[n.Parent]
		if n.AttrPos+1 < len(p.Attrs) {
			c.Cur = p.Attrs[n.AttrPos+1]
			return true
		}
	}
	return false
}

func (c *core) MoveToChild() bool {
	c.tick()
	n := &c.T.Nodes[c.Cur]
	if n.Kind == Attr || len(n.Children) == 0 {
		return false
	}
	c.Cur = n.Children[0]
	return true
}

func (c *core) MoveToFirst() bool {
	c.tick()
	n := &c.T.Nodes[c.Cur]
	if n.Kind == Attr || n.Prev < 0 {
		return false
	}
	c.Cur = c.T.Nodes[n.Parent].Children[0]
	return true
}

func (c *core) MoveToNext() bool {
	c.tick()
	n := &c.T.Nodes[c.Cur]
	if n.Kind == Attr || n.Next < 0 {
		return false
	}
	c.Cur = n.Next
	return true
}

func (c *core) MoveToPrevious() bool {
	c.tick()
	n := &c.T.Nodes[c.Cur]
	if n.Kind == Attr || n.Prev < 0 {
		return false
	}
	c.Cur = n.Prev
	return true
}

// Nav is the plain navigator (no NamespaceURL method).
type Nav struct{ core }

func NewNav(t *Tree, at int, b *Budget) *Nav { return &Nav{core{t, at, b}} }

func (n *Nav) Copy() xpath.NodeNavigator { n.tick(); c := *n; return &c }
func (n *Nav) MoveTo(o xpath.NodeNavigator) bool {
	n.tick()
	m, ok := o.(*Nav)
	if !ok || m.T != n.T {
		return false
	}
	n.Cur = m.Cur
	return true
}

// NavNS additionally exposes NamespaceURL (the optional interface probed by
// the engine).
type NavNS struct{ core }

func NewNavNS(t *Tree, at int, b *Budget) *NavNS { return &NavNS{core{t, at, b}} }

func (n *NavNS) Copy() xpath.NodeNavigator { n.tick(); c := *n; return &c }
func (n *NavNS) MoveTo(o xpath.NodeNavigator) bool {
	n.tick()
	m, ok := o.(*NavNS)
	if !ok || m.T != n.T {
		return false
	}
	n.Cur = m.Cur
	return true
}
func (n *NavNS) NamespaceURL() string { n.tick(); return n.T.Nodes[n.Cur].NS }

// At returns the arena index a navigator handed back by the engine points to.
func At(n xpath.NodeNavigator) int {
	switch v := n.(type) {
	case *Nav:
		return v.Cur
	case *NavNS:
		return v.Cur
	}
	return -1
}

// New makes a cursor of the chosen variant.
func New(t *Tree, at int, ns bool, b *Budget) xpath.NodeNavigator {
	if ns {
		return NewNavNS(t, at, b)
	}
	return NewNav(t, at, b)
}

package ref

import (
	"fmt"
	"strconv"
	"strings"

	"verif/mc/gen"
)

// Tok is a token of the XPath 1.0 lexical structure (spec section 3.7).
type Tok struct {
	Kind string // ( ) [ ] . .. @ , :: name nodetype op func axis lit num var
	Text string
	Num  float64
	Pos  int // byte offset of the token start
	End  int
}

func isWS(b byte) bool { return b == ' ' || b == '\t' || b == '\n' || b == '\r' }

func isNCStart(b byte) bool {
	return b == '_' || (b >= 'a' && b <= 'z') || (b >= 'A' && b <= 'Z') || b >= 0x80
}

func isNCChar(b byte) bool {
	return isNCStart(b) || (b >= '0' && b <= '9') || b == '.' || b == '-'
}

func isDigit(b byte) bool { return b >= '0' && b <= '9' }

var operatorNames = map[string]bool{"and": true, "or": true, "mod": true, "div": true}
var nodeTypes = map[string]bool{"comment": true, "text": true, "processing-instruction": true, "node": true}

// Tokenize is the reference tokenizer: longest token, and the two
// disambiguation rules of section 3.7.
func Tokenize(s string) ([]Tok, error) {
	var toks []Tok
	i := 0
	prevIsOperand := func() bool {
		// "If there is a preceding token and the preceding token is not one of
		// @, ::, (, [, , or an Operator" -> then * is multiply, NCName is an
		// operator name.
		if len(toks) == 0 {
			return false
		}
		switch p := toks[len(toks)-1]; p.Kind {
		case "@", "::", "(", "[", ",", "op":
			return false
		case "axis":
			return false // AxisName is always followed by :: which is then the preceding token; defensive
		}
		return true
	}
	skipWS := func(j int) int {
		for j < len(s) && isWS(s[j]) {
			j++
		}
		return j
	}
	for {
		i = skipWS(i)
		if i >= len(s) {
			break
		}
		c := s[i]
		st := i
		switch {
		case c == '(' || c == ')' || c == '[' || c == ']' || c == '@' || c == ',':
			toks = append(toks, Tok{Kind: string(c), Text: string(c), Pos: st, End: i + 1})
			i++
		case c == ':':
			if i+1 < len(s) && s[i+1] == ':' {
				toks = append(toks, Tok{Kind: "::", Text: "::", Pos: st, End: i + 2})
				i += 2
			} else {
				return nil, fmt.Errorf("stray ':' at %d", i)
			}
		case c == '.':
			if i+1 < len(s) && isDigit(s[i+1]) {
				j := i + 1
				for j < len(s) && isDigit(s[j]) {
					j++
				}
				f, _ := strconv.ParseFloat(s[i:j], 64)
				toks = append(toks, Tok{Kind: "num", Text: s[i:j], Num: f, Pos: st, End: j})
				i = j
			} else if i+1 < len(s) && s[i+1] == '.' {
				toks = append(toks, Tok{Kind: "..", Text: "..", Pos: st, End: i + 2})
				i += 2
			} else {
				toks = append(toks, Tok{Kind: ".", Text: ".", Pos: st, End: i + 1})
				i++
			}
		case isDigit(c):
			j := i
			for j < len(s) && isDigit(s[j]) {
				j++
			}
			if j < len(s) && s[j] == '.' {
				j++
				for j < len(s) && isDigit(s[j]) {
					j++
				}
			}
			f, _ := strconv.ParseFloat(s[i:j], 64)
			toks = append(toks, Tok{Kind: "num", Text: s[i:j], Num: f, Pos: st, End: j})
			i = j
		case c == '"' || c == '\'':
			j := i + 1
			for j < len(s) && s[j] != c {
				j++
			}
			if j >= len(s) {
				return nil, fmt.Errorf("unterminated literal at %d", i)
			}
			toks = append(toks, Tok{Kind: "lit", Text: s[i+1 : j], Pos: st, End: j + 1})
			i = j + 1
		case c == '$':
			j := i + 1
			if j >= len(s) || !isNCStart(s[j]) {
				return nil, fmt.Errorf("bad variable reference at %d", i)
			}
			for j < len(s) && isNCChar(s[j]) {
				j++
			}
			if j+1 < len(s) && s[j] == ':' && isNCStart(s[j+1]) {
				j++
				for j < len(s) && isNCChar(s[j]) {
					j++
				}
			}
			toks = append(toks, Tok{Kind: "var", Text: s[i+1 : j], Pos: st, End: j})
			i = j
		case c == '/':
			if i+1 < len(s) && s[i+1] == '/' {
				toks = append(toks, Tok{Kind: "op", Text: "//", Pos: st, End: i + 2})
				i += 2
			} else {
				toks = append(toks, Tok{Kind: "op", Text: "/", Pos: st, End: i + 1})
				i++
			}
		case c == '|' || c == '+' || c == '-' || c == '=':
			toks = append(toks, Tok{Kind: "op", Text: string(c), Pos: st, End: i + 1})
			i++
		case c == '!':
			if i+1 < len(s) && s[i+1] == '=' {
				toks = append(toks, Tok{Kind: "op", Text: "!=", Pos: st, End: i + 2})
				i += 2
			} else {
				return nil, fmt.Errorf("stray '!' at %d", i)
			}
		case c == '<' || c == '>':
			if i+1 < len(s) && s[i+1] == '=' {
				toks = append(toks, Tok{Kind: "op", Text: string(c) + "=", Pos: st, End: i + 2})
				i += 2
			} else {
				toks = append(toks, Tok{Kind: "op", Text: string(c), Pos: st, End: i + 1})
				i++
			}
		case c == '*':
			if prevIsOperand() {
				toks = append(toks, Tok{Kind: "op", Text: "*", Pos: st, End: i + 1})
			} else {
				toks = append(toks, Tok{Kind: "name", Text: "*", Pos: st, End: i + 1})
			}
			i++
		case isNCStart(c):
			j := i
			for j < len(s) && isNCChar(s[j]) {
				j++
			}
			nc := s[i:j]
			if prevIsOperand() {
				if !operatorNames[nc] {
					return nil, fmt.Errorf("name %q where an operator is required at %d", nc, i)
				}
				toks = append(toks, Tok{Kind: "op", Text: nc, Pos: st, End: j})
				i = j
				continue
			}
			// QName / prefix:* (no white space around the colon)
			if j+1 < len(s) && s[j] == ':' && s[j+1] != ':' {
				if s[j+1] == '*' {
					toks = append(toks, Tok{Kind: "name", Text: nc + ":*", Pos: st, End: j + 2})
					i = j + 2
					continue
				}
				if isNCStart(s[j+1]) {
					k := j + 1
					for k < len(s) && isNCChar(s[k]) {
						k++
					}
					q := s[i:k]
					n := skipWS(k)
					if n < len(s) && s[n] == '(' {
						toks = append(toks, Tok{Kind: "func", Text: q, Pos: st, End: k})
					} else {
						toks = append(toks, Tok{Kind: "name", Text: q, Pos: st, End: k})
					}
					i = k
					continue
				}
				return nil, fmt.Errorf("malformed qualified name at %d", i)
			}
			n := skipWS(j)
			switch {
			case n < len(s) && s[n] == '(':
				if nodeTypes[nc] {
					toks = append(toks, Tok{Kind: "nodetype", Text: nc, Pos: st, End: j})
				} else {
					toks = append(toks, Tok{Kind: "func", Text: nc, Pos: st, End: j})
				}
			case n+1 < len(s) && s[n] == ':' && s[n+1] == ':':
				toks = append(toks, Tok{Kind: "axis", Text: nc, Pos: st, End: j})
			default:
				toks = append(toks, Tok{Kind: "name", Text: nc, Pos: st, End: j})
			}
			i = j
		default:
			return nil, fmt.Errorf("illegal character %q at %d", c, i)
		}
	}
	return toks, nil
}

// Arity gives the [min,max] argument counts of the functions the package
// lists as supported (XPath 1.0 core + the documented extras); max -1 = any.
var Arity = map[string][2]int{
	"last": {0, 0}, "position": {0, 0}, "count": {1, 1}, "local-name": {0, 1}, "namespace-uri": {0, 1}, "name": {0, 1},
	"string": {0, 1}, "concat": {2, -1}, "starts-with": {2, 2}, "contains": {2, 2}, "substring-before": {2, 2}, "substring-after": {2, 2},
	"substring": {2, 3}, "string-length": {0, 1}, "normalize-space": {0, 1}, "translate": {3, 3}, "boolean": {1, 1}, "not": {1, 1},
	"true": {0, 0}, "false": {0, 0}, "number": {0, 1}, "sum": {1, 1}, "floor": {1, 1}, "ceiling": {1, 1}, "round": {1, 1},
	"ends-with": {2, 2}, "lower-case": {1, 1}, "matches": {2, 3}, "replace": {3, 4}, "reverse": {1, 1}, "string-join": {2, 2},
}

var axisNames = map[string]bool{"ancestor": true, "ancestor-or-self": true, "attribute": true, "child": true, "descendant": true,
	"descendant-or-self": true, "following": true, "following-sibling": true, "namespace": true, "parent": true, "preceding": true,
	"preceding-sibling": true, "self": true}

type parser struct {
	toks []Tok
	i    int
	// CheckFuncs: reject unknown function names and wrong argument counts
	checkFuncs bool
	// allowSeq: accept the package's documented extension p/(s1, s2, ...) — a
	// parenthesised, comma-separated list of steps in step position
	allowSeq bool
}

type parseErr struct{ msg string }

func (p *parser) fail(f string, a ...interface{}) { panic(parseErr{fmt.Sprintf(f, a...)}) }

func (p *parser) peek() *Tok {
	if p.i < len(p.toks) {
		return &p.toks[p.i]
	}
	return &Tok{Kind: "EOF"}
}

func (p *parser) isOp(text string) bool {
	t := p.peek()
	return t.Kind == "op" && t.Text == text
}

func (p *parser) expect(kind string) Tok {
	t := p.peek()
	if t.Kind != kind {
		p.fail("expected %s, found %s %q", kind, t.Kind, t.Text)
	}
	p.i++
	return *t
}

// Parse is a literal recursive-descent transcription of the XPath 1.0 EBNF.
// It returns the reference AST or an error (the validity verdict).
func Parse(s string) (e gen.Expr, err error) {
	toks, terr := Tokenize(s)
	if terr != nil {
		return nil, terr
	}
	return ParseTokens(toks)
}

// ParseExt is Parse plus the documented sequence extension p/(s1, s2, ...).
func ParseExt(s string) (gen.Expr, error) {
	toks, terr := Tokenize(s)
	if terr != nil {
		return nil, terr
	}
	return parseTokens(toks, true)
}

func ParseTokens(toks []Tok) (e gen.Expr, err error) { return parseTokens(toks, false) }

func parseTokens(toks []Tok, ext bool) (e gen.Expr, err error) {
	defer func() {
		if r := recover(); r != nil {
			if pe, ok := r.(parseErr); ok {
				e, err = nil, fmt.Errorf("%s", pe.msg)
				return
			}
			panic(r)
		}
	}()
	p := &parser{toks: toks, checkFuncs: true, allowSeq: ext}
	if len(toks) == 0 {
		p.fail("empty expression")
	}
	e = p.expr()
	if p.i != len(toks) {
		p.fail("unexpected %s %q after expression", p.peek().Kind, p.peek().Text)
	}
	return e, nil
}

func (p *parser) expr() gen.Expr { return p.binary(0) }

var levels = [][]string{{"or"}, {"and"}, {"=", "!="}, {"<", "<=", ">", ">="}, {"+", "-"}, {"*", "div", "mod"}}

func (p *parser) binary(level int) gen.Expr {
	if level == len(levels) {
		return p.unary()
	}
	l := p.binary(level + 1)
	for {
		t := p.peek()
		if t.Kind != "op" || !contains(levels[level], t.Text) {
			return l
		}
		p.i++
		r := p.binary(level + 1)
		l = &gen.Bin{Op: t.Text, L: l, R: r}
	}
}

func contains(a []string, s string) bool {
	for _, x := range a {
		if x == s {
			return true
		}
	}
	return false
}

func (p *parser) unary() gen.Expr {
	if p.isOp("-") {
		p.i++
		return &gen.Neg{E: p.unary()}
	}
	return p.union()
}

func (p *parser) union() gen.Expr {
	l := p.pathExpr()
	for p.isOp("|") {
		p.i++
		r := p.pathExpr()
		l = &gen.Bin{Op: "|", L: l, R: r}
	}
	return l
}

func (p *parser) startsStep() bool {
	switch p.peek().Kind {
	case "axis", "@", "name", "nodetype", ".", "..":
		return true
	}
	return false
}

func (p *parser) pathExpr() gen.Expr {
	switch p.peek().Kind {
	case "var", "(", "lit", "num", "func":
		f := p.filterExpr()
		if p.isOp("/") || p.isOp("//") {
			path := &gen.Path{Start: f}
			p.relPath(path)
			return path
		}
		return f
	}
	return p.locationPath()
}

func (p *parser) locationPath() gen.Expr {
	path := &gen.Path{}
	switch {
	case p.isOp("/"):
		path.Abs = true
		p.i++
		if p.startsStep() {
			path.Steps = append(path.Steps, p.step())
			p.relPath(path)
		}
	case p.isOp("//"):
		path.Abs = true
		p.relPath(path)
	default:
		if !p.startsStep() {
			p.fail("expected a location step, found %s %q", p.peek().Kind, p.peek().Text)
		}
		path.Steps = append(path.Steps, p.step())
		p.relPath(path)
	}
	return path
}

// relPath consumes ( ('/' | '//') Step )*.
func (p *parser) relPath(path *gen.Path) {
	for {
		switch {
		case p.isOp("/"):
			p.i++
		case p.isOp("//"):
			p.i++
			path.Steps = append(path.Steps, gen.DSlash())
		default:
			return
		}
		if p.allowSeq && p.peek().Kind == "(" {
			p.i++
			seq := gen.Step{}
			for {
				if !p.startsStep() {
					p.fail("expected a location step inside a sequence, found %s %q", p.peek().Kind, p.peek().Text)
				}
				seq.Seq = append(seq.Seq, p.step())
				if p.peek().Kind != "," {
					break
				}
				p.i++
			}
			p.expect(")")
			path.Steps = append(path.Steps, seq)
			continue
		}
		if !p.startsStep() {
			p.fail("expected a location step after '/', found %s %q", p.peek().Kind, p.peek().Text)
		}
		path.Steps = append(path.Steps, p.step())
	}
}

func (p *parser) step() gen.Step {
	t := p.peek()
	switch t.Kind {
	case ".":
		p.i++
		return gen.Dot()
	case "..":
		p.i++
		return gen.DotDot()
	}
	st := gen.Step{Axis: "child", Abbr: "c"}
	switch t.Kind {
	case "@":
		p.i++
		st.Axis, st.Abbr = "attribute", "@"
	case "axis":
		if !axisNames[t.Text] {
			p.fail("unknown axis %q", t.Text)
		}
		p.i++
		p.expect("::")
		st.Axis, st.Abbr = t.Text, ""
	}
	st.Test = p.nodeTest()
	for p.peek().Kind == "[" {
		p.i++
		st.Preds = append(st.Preds, p.expr())
		p.expect("]")
	}
	return st
}

func (p *parser) nodeTest() gen.Test {
	t := p.peek()
	switch t.Kind {
	case "name":
		p.i++
		return gen.NameT(t.Text)
	case "nodetype":
		p.i++
		p.expect("(")
		tst := gen.Test{Kind: t.Text}
		if t.Text == "processing-instruction" {
			tst.Kind = "pi"
			if p.peek().Kind == "lit" {
				tst.Local = p.peek().Text
				p.i++
			}
		}
		p.expect(")")
		return tst
	}
	p.fail("expected a node test, found %s %q", t.Kind, t.Text)
	return gen.Test{}
}

func (p *parser) filterExpr() gen.Expr {
	prim := p.primary()
	if p.peek().Kind != "[" {
		return prim
	}
	f := &gen.Filter{Primary: prim}
	for p.peek().Kind == "[" {
		p.i++
		f.Preds = append(f.Preds, p.expr())
		p.expect("]")
	}
	return f
}

func (p *parser) primary() gen.Expr {
	t := p.peek()
	switch t.Kind {
	case "var":
		p.i++
		return &gen.Var{Name: t.Text}
	case "(":
		p.i++
		e := p.expr()
		p.expect(")")
		return &gen.Group{E: e}
	case "lit":
		p.i++
		return &gen.Str{V: t.Text}
	case "num":
		p.i++
		return &gen.Num{V: t.Num, Lit: t.Text}
	case "func":
		p.i++
		p.expect("(")
		c := &gen.Call{Name: t.Text}
		if p.peek().Kind != ")" {
			for {
				c.Args = append(c.Args, p.expr())
				if p.peek().Kind != "," {
					break
				}
				p.i++
			}
		}
		p.expect(")")
		if p.checkFuncs {
			ar, ok := Arity[c.Name]
			if !ok {
				p.fail("unknown function %q", c.Name)
			}
			if len(c.Args) < ar[0] || (ar[1] >= 0 && len(c.Args) > ar[1]) {
				p.fail("function %s called with %d arguments", c.Name, len(c.Args))
			}
		}
		return c
	}
	p.fail("expected a primary expression, found %s %q", t.Kind, t.Text)
	return nil
}

// ---------------------------------------------------------------------------

// TreeString renders a reference AST in the format of the engine hook
// VerifParseTree: binary operators fully parenthesised, steps unabbreviated,
// groups in braces (dropped around constants, as the engine does), unary
// minus as multiplication by -1 with double negation folded.
func TreeString(e gen.Expr) string {
	switch v := e.(type) {
	case *gen.Num:
		return "#" + strconv.FormatFloat(v.V, 'g', -1, 64)
	case *gen.Str:
		return strconv.Quote(v.V)
	case *gen.Var:
		return "$" + v.Name
	case *gen.Group:
		in := TreeString(v.E)
		if isConstTree(v.E) {
			return in
		}
		return "{" + in + "}"
	case *gen.Neg:
		n, inner := 0, gen.Expr(v)
		for {
			ng, ok := inner.(*gen.Neg)
			if !ok {
				break
			}
			n++
			inner = ng.E
		}
		if n%2 == 0 {
			return TreeString(inner)
		}
		return "(" + TreeString(inner) + " * #-1)"
	case *gen.Bin:
		return "(" + TreeString(v.L) + " " + v.Op + " " + TreeString(v.R) + ")"
	case *gen.Call:
		args := make([]string, len(v.Args))
		for i, a := range v.Args {
			args[i] = TreeString(a)
		}
		return v.Name + "(" + strings.Join(args, ", ") + ")"
	case *gen.Filter:
		s := TreeString(v.Primary)
		for _, p := range v.Preds {
			s += "[" + TreeString(p) + "]"
		}
		return s
	case *gen.Path:
		acc := ""
		if v.Start != nil {
			acc = TreeString(v.Start)
		} else if v.Abs {
			acc = "ROOT"
		}
		for _, st := range v.Steps {
			s := st.Axis + "::" + testTree(st.Test)
			if acc == "" {
				acc = s
			} else {
				acc += "/" + s
			}
			for _, p := range st.Preds {
				acc += "[" + TreeString(p) + "]"
			}
		}
		return acc
	}
	return fmt.Sprintf("?%T", e)
}

func testTree(t gen.Test) string {
	switch t.Kind {
	case "pi":
		if t.Local != "" {
			return "processing-instruction(" + strconv.Quote(t.Local) + ")"
		}
		return "processing-instruction()"
	}
	return t.String()
}

func isConstTree(e gen.Expr) bool {
	switch v := e.(type) {
	case *gen.Num, *gen.Str:
		return true
	case *gen.Group:
		return isConstTree(v.E)
	}
	return false
}

// Package ref is the oracle: a direct, boring transcription of XPath 1.0
// sections 2-4 over doc.Tree. It shares no code with the engine under test.
package ref

import (
	"fmt"
	"math"
	"regexp"
	"sort"
	"strconv"
	"strings"

	"verif/mc/doc"
	"verif/mc/gen"
)

type VT uint8

const (
	TNodeSet VT = iota
	TBool
	TNum
	TStr
	TUndef // XPath 1.0 defines no value (ill-typed call the package rejects)
)

type Value struct {
	T  VT
	NS []int // document order, no duplicates
	B  bool
	N  float64
	S  string
}

func (v Value) String() string {
	switch v.T {
	case TNodeSet:
		return fmt.Sprintf("nodes:%v", v.NS)
	case TBool:
		return fmt.Sprintf("bool:%v", v.B)
	case TNum:
		return "num:" + NumToString(v.N)
	case TStr:
		return fmt.Sprintf("str:%q", v.S)
	}
	return "undefined"
}

// Env is the static context of an evaluation.
type Env struct {
	T *doc.Tree
	// NSMap non-nil  => expression compiled with CompileWithNS(NSMap).
	NSMap map[string]string
	// NavHasURI => navigator exposes NamespaceURL().
	NavHasURI bool
	// Fragment restrictions: outside the stated domain the reference gives
	// "undefined" and the case is skipped (never reported).
	SumNumericOnly bool // sum() over a node whose string-value is not a number
	ModDomainOnly  bool // mod unless both operands are non-negative integers and the divisor is non-zero
	StringNumSmall bool // string(number) unless finite and |v| < 1e6

	sawUndef bool // set when a predicate evaluated to "undefined"
}

type ctx struct {
	env       *Env
	node      int
	pos, size int
}

// Eval evaluates e with context node n (position 1 of 1).
func Eval(env *Env, n int, e gen.Expr) Value {
	env.sawUndef = false
	v := eval(&ctx{env: env, node: n, pos: 1, size: 1}, e)
	if env.sawUndef {
		// some predicate had no defined value (outside the property's fragment):
		// the whole evaluation is outside the fragment
		return undef()
	}
	return v
}

// ---------------------------------------------------------------- axes ----

func isReverse(axis string) bool {
	switch axis {
	case "ancestor", "ancestor-or-self", "preceding", "preceding-sibling":
		return true
	}
	return false
}

// Axis returns the nodes on the axis from n, in *axis order* (reverse axes in
// reverse document order).
func Axis(t *doc.Tree, n int, axis string) []int {
	nd := &t.Nodes[n]
	var out []int
	switch axis {
	case "self":
		out = []int{n}
	case "child":
		out = append(out, nd.Children...)
	case "attribute":
		if nd.Kind == doc.Elem {
			out = append(out, nd.Attrs...)
		}
	case "parent":
		if nd.Parent >= 0 {
			out = []int{nd.Parent}
		}
	case "ancestor", "ancestor-or-self":
		if axis == "ancestor-or-self" {
			out = append(out, n)
		}
		for p := nd.Parent; p >= 0; p = t.Nodes[p].Parent {
			out = append(out, p)
		}
	case "descendant", "descendant-or-self":
		if axis == "descendant-or-self" {
			out = append(out, n)
		}
		var rec func(int)
		rec = func(i int) {
			for _, c := range t.Nodes[i].Children {
				out = append(out, c)
				rec(c)
			}
		}
		rec(n)
	case "following-sibling":
		if nd.Kind != doc.Attr {
			for s := nd.Next; s >= 0; s = t.Nodes[s].Next {
				out = append(out, s)
			}
		}
	case "preceding-sibling":
		if nd.Kind != doc.Attr {
			for s := nd.Prev; s >= 0; s = t.Nodes[s].Prev {
				out = append(out, s)
			}
		}
	case "following":
		// all non-attribute nodes after n in document order that are not
		// descendants of n
		desc := map[int]bool{}
		for _, d := range Axis(t, n, "descendant") {
			desc[d] = true
		}
		for i := n + 1; i < len(t.Nodes); i++ {
			if t.Nodes[i].Kind == doc.Attr || desc[i] {
				continue
			}
			out = append(out, i)
		}
	case "preceding":
		anc := map[int]bool{}
		for _, a := range Axis(t, n, "ancestor") {
			anc[a] = true
		}
		for i := n - 1; i >= 0; i-- {
			if t.Nodes[i].Kind == doc.Attr || anc[i] {
				continue
			}
			out = append(out, i)
		}
	default:
		panic("ref: unknown axis " + axis)
	}
	return out
}

func (c *ctx) matches(axis string, tst gen.Test, i int) bool {
	nd := &c.env.T.Nodes[i]
	principal := doc.Elem
	if axis == "attribute" {
		principal = doc.Attr
	}
	switch tst.Kind {
	case "node":
		return true
	case "pi":
		return false // the document model has no processing instructions
	case "text":
		return nd.Kind == doc.Text
	case "comment":
		return nd.Kind == doc.Comment
	case "*":
		return nd.Kind == principal
	case "prefix:*":
		if nd.Kind != principal {
			return false
		}
		if c.env.NSMap != nil && c.env.NavHasURI {
			return nd.NS == c.env.NSMap[tst.Prefix]
		}
		return nd.Prefix == tst.Prefix
	case "name":
		if nd.Kind != principal {
			return false
		}
		if tst.Prefix != "" && c.env.NSMap != nil && c.env.NavHasURI {
			return nd.Local == tst.Local && nd.NS == c.env.NSMap[tst.Prefix]
		}
		return nd.Local == tst.Local && nd.Prefix == tst.Prefix
	}
	panic("ref: bad test " + tst.Kind)
}

// step applies one step to one context node, returning the selected nodes in
// axis order.
func (c *ctx) step(n int, s gen.Step) []int {
	if s.Seq != nil {
		set := map[int]bool{}
		for _, m := range s.Seq {
			for _, x := range c.step(n, m) {
				set[x] = true
			}
		}
		cand := sortedKeys(set)
		return c.applyPreds(cand, s.Preds)
	}
	var cand []int
	for _, x := range Axis(c.env.T, n, s.Axis) {
		if c.matches(s.Axis, s.Test, x) {
			cand = append(cand, x)
		}
	}
	return c.applyPreds(cand, s.Preds)
}

func (c *ctx) applyPreds(cand []int, preds []gen.Expr) []int {
	for _, p := range preds {
		var keep []int
		for i, x := range cand {
			v := eval(&ctx{env: c.env, node: x, pos: i + 1, size: len(cand)}, p)
			if v.T == TUndef {
				c.env.sawUndef = true
			}
			ok := false
			if v.T == TNum {
				ok = v.N == float64(i+1)
			} else {
				ok = ToBool(v)
			}
			if ok {
				keep = append(keep, x)
			}
		}
		cand = keep
	}
	return cand
}

func sortedKeys(m map[int]bool) []int {
	out := make([]int, 0, len(m))
	for k := range m {
		out = append(out, k)
	}
	sort.Ints(out)
	return out
}

// ------------------------------------------------------------- convert ----

func ToBool(v Value) bool {
	switch v.T {
	case TNodeSet:
		return len(v.NS) > 0
	case TBool:
		return v.B
	case TNum:
		return v.N != 0 && !math.IsNaN(v.N)
	case TStr:
		return v.S != ""
	}
	return false
}

func isXMLSpace(b byte) bool { return b == ' ' || b == '\t' || b == '\n' || b == '\r' }

// StrToNum is the XPath 1.0 string->number rule (NOT strconv.ParseFloat).
func StrToNum(s string) float64 {
	i, j := 0, len(s)
	for i < j && isXMLSpace(s[i]) {
		i++
	}
	for j > i && isXMLSpace(s[j-1]) {
		j--
	}
	s = s[i:j]
	if s == "" {
		return math.NaN()
	}
	body := s
	if body[0] == '-' {
		body = body[1:]
	}
	digits, dots := 0, 0
	for k := 0; k < len(body); k++ {
		switch {
		case body[k] >= '0' && body[k] <= '9':
			digits++
		case body[k] == '.':
			dots++
		default:
			return math.NaN()
		}
	}
	if digits == 0 || dots > 1 {
		return math.NaN()
	}
	f, err := strconv.ParseFloat(s, 64)
	if err != nil {
		// "5." and ".5" are accepted by ParseFloat; overflow gives ±Inf + err
		if ne, ok := err.(*strconv.NumError); ok && ne.Err == strconv.ErrRange {
			return f
		}
		return math.NaN()
	}
	return f
}

// NumToString is the XPath 1.0 number->string rule.
func NumToString(f float64) string {
	switch {
	case math.IsNaN(f):
		return "NaN"
	case math.IsInf(f, 1):
		return "Infinity"
	case math.IsInf(f, -1):
		return "-Infinity"
	case f == 0:
		return "0"
	}
	return strconv.FormatFloat(f, 'f', -1, 64)
}

func (c *ctx) toStr(v Value) string {
	switch v.T {
	case TNodeSet:
		if len(v.NS) == 0 {
			return ""
		}
		return c.env.T.StringValue(v.NS[0])
	case TBool:
		if v.B {
			return "true"
		}
		return "false"
	case TNum:
		return NumToString(v.N)
	case TStr:
		return v.S
	}
	return ""
}

func (c *ctx) toNum(v Value) float64 {
	switch v.T {
	case TNodeSet:
		return StrToNum(c.toStr(v))
	case TBool:
		if v.B {
			return 1
		}
		return 0
	case TNum:
		return v.N
	case TStr:
		return StrToNum(v.S)
	}
	return math.NaN()
}

// ---------------------------------------------------------------- eval ----

func boolV(b bool) Value     { return Value{T: TBool, B: b} }
func numV(f float64) Value   { return Value{T: TNum, N: f} }
func strV(s string) Value    { return Value{T: TStr, S: s} }
func nodesV(ns []int) Value  { return Value{T: TNodeSet, NS: ns} }
func undef() Value           { return Value{T: TUndef} }

func eval(c *ctx, e gen.Expr) Value {
	switch v := e.(type) {
	case *gen.Num:
		return numV(v.V)
	case *gen.Str:
		return strV(v.V)
	case *gen.Group:
		return eval(c, v.E)
	case *gen.Var:
		return undef() // no variable bindings exist in this API
	case *gen.Neg:
		x := eval(c, v.E)
		if x.T == TUndef {
			return x
		}
		return numV(-c.toNum(x))
	case *gen.Path:
		return c.evalPath(v)
	case *gen.Filter:
		base := eval(c, v.Primary)
		if base.T != TNodeSet {
			if len(v.Preds) == 0 {
				return base
			}
			return undef()
		}
		return nodesV(c.applyPreds(base.NS, v.Preds))
	case *gen.Bin:
		return c.evalBin(v)
	case *gen.Call:
		return c.evalCall(v)
	}
	panic(fmt.Sprintf("ref: unknown expr %T", e))
}

func (c *ctx) evalPath(p *gen.Path) Value {
	var cur []int
	switch {
	case p.Start != nil:
		b := eval(c, p.Start)
		if b.T != TNodeSet {
			return undef()
		}
		cur = b.NS
	case p.Abs:
		cur = []int{0}
	default:
		cur = []int{c.node}
	}
	for _, s := range p.Steps {
		set := map[int]bool{}
		for _, n := range cur {
			for _, x := range c.step(n, s) {
				set[x] = true
			}
		}
		cur = sortedKeys(set)
	}
	return nodesV(cur)
}

func cmpNum(op string, a, b float64) bool {
	switch op {
	case "=":
		return a == b
	case "!=":
		return a != b
	case "<":
		return a < b
	case "<=":
		return a <= b
	case ">":
		return a > b
	case ">=":
		return a >= b
	}
	panic("bad op " + op)
}

func (c *ctx) compare(op string, l, r Value) bool {
	t := c.env.T
	eqOp := op == "=" || op == "!="
	atom := func(a, b Value) bool { // neither is a node-set
		if eqOp {
			if a.T == TBool || b.T == TBool {
				x, y := ToBool(a), ToBool(b)
				if op == "=" {
					return x == y
				}
				return x != y
			}
			if a.T == TNum || b.T == TNum {
				return cmpNum(op, c.toNum(a), c.toNum(b))
			}
			if op == "=" {
				return a.S == b.S
			}
			return a.S != b.S
		}
		return cmpNum(op, c.toNum(a), c.toNum(b))
	}
	switch {
	case l.T == TNodeSet && r.T == TNodeSet:
		for _, x := range l.NS {
			for _, y := range r.NS {
				if atom(strV(t.StringValue(x)), strV(t.StringValue(y))) {
					return true
				}
			}
		}
		return false
	case l.T == TNodeSet:
		if r.T == TBool {
			return atom(boolV(len(l.NS) > 0), r)
		}
		for _, x := range l.NS {
			if atom(strV(t.StringValue(x)), r) {
				return true
			}
		}
		return false
	case r.T == TNodeSet:
		if l.T == TBool {
			return atom(l, boolV(len(r.NS) > 0))
		}
		for _, y := range r.NS {
			if atom(l, strV(t.StringValue(y))) {
				return true
			}
		}
		return false
	}
	return atom(l, r)
}

func (c *ctx) evalBin(b *gen.Bin) Value {
	switch b.Op {
	case "or":
		l := eval(c, b.L)
		if l.T == TUndef {
			return l
		}
		if ToBool(l) {
			return boolV(true)
		}
		r := eval(c, b.R)
		if r.T == TUndef {
			return r
		}
		return boolV(ToBool(r))
	case "and":
		l := eval(c, b.L)
		if l.T == TUndef {
			return l
		}
		if !ToBool(l) {
			return boolV(false)
		}
		r := eval(c, b.R)
		if r.T == TUndef {
			return r
		}
		return boolV(ToBool(r))
	}
	l := eval(c, b.L)
	r := eval(c, b.R)
	if l.T == TUndef || r.T == TUndef {
		return undef()
	}
	switch b.Op {
	case "|":
		if l.T != TNodeSet || r.T != TNodeSet {
			return undef()
		}
		set := map[int]bool{}
		for _, x := range l.NS {
			set[x] = true
		}
		for _, x := range r.NS {
			set[x] = true
		}
		return nodesV(sortedKeys(set))
	case "=", "!=", "<", "<=", ">", ">=":
		return boolV(c.compare(b.Op, l, r))
	}
	x, y := c.toNum(l), c.toNum(r)
	switch b.Op {
	case "+":
		return numV(x + y)
	case "-":
		return numV(x - y)
	case "*":
		return numV(x * y)
	case "div":
		return numV(x / y)
	case "mod":
		if c.env.ModDomainOnly && !(x >= 0 && y > 0 && x == math.Trunc(x) && y == math.Trunc(y) && !math.IsInf(x, 0) && !math.IsInf(y, 0)) {
			return undef()
		}
		return numV(math.Mod(x, y)) // truncating remainder, sign of dividend
	}
	panic("ref: bad operator " + b.Op)
}

// Compare applies a comparison operator to two already evaluated values.
func Compare(env *Env, op string, l, r Value) bool {
	return (&ctx{env: env}).compare(op, l, r)
}

// Round is XPath round(): closest integer, ties toward +infinity.
func Round(f float64) float64 {
	if math.IsNaN(f) || math.IsInf(f, 0) {
		return f
	}
	r := math.Floor(f + 0.5)
	if r == 0 && (f < 0 || math.Signbit(f)) {
		return math.Copysign(0, -1)
	}
	return r
}

func (c *ctx) argStr(call *gen.Call, i int) (string, bool) {
	if i >= len(call.Args) {
		return c.env.T.StringValue(c.node), true
	}
	v := eval(c, call.Args[i])
	if v.T == TUndef {
		return "", false
	}
	return c.toStr(v), true
}

// Substring implements XPath substring() on byte strings (ASCII fragment).
func Substring(s string, start float64, length float64, hasLen bool) string {
	rs := Round(start)
	var sb strings.Builder
	for i := 0; i < len(s); i++ {
		p := float64(i + 1)
		if !(p >= rs) {
			continue
		}
		if hasLen {
			if !(p < rs+Round(length)) {
				continue
			}
		}
		sb.WriteByte(s[i])
	}
	return sb.String()
}

func normalizeSpace(s string) string {
	fs := strings.FieldsFunc(s, func(r rune) bool { return r == ' ' || r == '\t' || r == '\n' || r == '\r' })
	return strings.Join(fs, " ")
}

func translate(s, from, to string) string {
	fr, tr := []rune(from), []rune(to)
	var sb strings.Builder
outer:
	for _, r := range s {
		for i, f := range fr {
			if f == r {
				if i < len(tr) {
					sb.WriteRune(tr[i])
				}
				continue outer
			}
		}
		sb.WriteRune(r)
	}
	return sb.String()
}

func (c *ctx) evalCall(f *gen.Call) Value {
	t := c.env.T
	args := f.Args
	ev := func(i int) Value { return eval(c, args[i]) }
	// evaluate all args eagerly for undefined-propagation (functions here are
	// strict; and/or are operators)
	for i := range args {
		if ev(i).T == TUndef {
			return undef()
		}
	}
	nodeArg := func() (int, bool, bool) { // node, present, ok
		if len(args) == 0 {
			return c.node, true, true
		}
		v := ev(0)
		if v.T != TNodeSet {
			return 0, false, false
		}
		if len(v.NS) == 0 {
			return 0, false, true
		}
		return v.NS[0], true, true
	}
	switch f.Name {
	case "true":
		return boolV(true)
	case "false":
		return boolV(false)
	case "last":
		return numV(float64(c.size))
	case "position":
		return numV(float64(c.pos))
	case "reverse":
		// the package's XPath 3 extension: the argument sequence reversed — the same node SET
		v := ev(0)
		if v.T != TNodeSet {
			return undef()
		}
		// node sets are kept in document order in this model (unions merge sorted
		// lists): the reversal is not represented, only set/bag-mode checks use it
		return v
	case "count":
		v := ev(0)
		if v.T != TNodeSet {
			return undef()
		}
		return numV(float64(len(v.NS)))
	case "sum":
		v := ev(0)
		if v.T != TNodeSet {
			return undef()
		}
		s := 0.0
		for _, n := range v.NS {
			x := StrToNum(t.StringValue(n))
			if c.env.SumNumericOnly && math.IsNaN(x) {
				return undef()
			}
			s += x
		}
		return numV(s)
	case "not":
		return boolV(!ToBool(ev(0)))
	case "boolean":
		return boolV(ToBool(ev(0)))
	case "number":
		if len(args) == 0 {
			return numV(StrToNum(t.StringValue(c.node)))
		}
		return numV(c.toNum(ev(0)))
	case "string":
		if len(args) == 0 {
			return strV(t.StringValue(c.node))
		}
		if v := ev(0); c.env.StringNumSmall && v.T == TNum && (math.IsNaN(v.N) || math.IsInf(v.N, 0) || math.Abs(v.N) >= 1e6) {
			return undef()
		}
		return strV(c.toStr(ev(0)))
	case "floor":
		return numV(math.Floor(c.toNum(ev(0))))
	case "ceiling":
		return numV(math.Ceil(c.toNum(ev(0))))
	case "round":
		return numV(Round(c.toNum(ev(0))))
	case "name", "local-name", "namespace-uri":
		n, present, ok := nodeArg()
		if !ok {
			return undef()
		}
		if !present {
			return strV("")
		}
		nd := &t.Nodes[n]
		switch nd.Kind {
		case doc.Elem, doc.Attr:
		default:
			return strV("")
		}
		switch f.Name {
		case "local-name":
			return strV(nd.Local)
		case "namespace-uri":
			return strV(nd.NS)
		}
		if nd.Prefix != "" {
			return strV(nd.Prefix + ":" + nd.Local)
		}
		return strV(nd.Local)
	case "concat":
		var sb strings.Builder
		for i := range args {
			sb.WriteString(c.toStr(ev(i)))
		}
		return strV(sb.String())
	case "starts-with", "ends-with", "contains":
		// the package deliberately rejects non-string arguments here (the
		// suite pins contains(0, 0) raising an error): no defined value
		if a, b := ev(0), ev(1); (a.T != TStr && a.T != TNodeSet) || b.T != TStr {
			return undef()
		}
		a, b := c.toStr(ev(0)), c.toStr(ev(1))
		switch f.Name {
		case "starts-with":
			return boolV(strings.HasPrefix(a, b))
		case "ends-with":
			return boolV(strings.HasSuffix(a, b))
		}
		return boolV(strings.Contains(a, b))
	case "substring-before":
		a, b := c.toStr(ev(0)), c.toStr(ev(1))
		if i := strings.Index(a, b); i >= 0 {
			return strV(a[:i])
		}
		return strV("")
	case "substring-after":
		a, b := c.toStr(ev(0)), c.toStr(ev(1))
		if i := strings.Index(a, b); i >= 0 {
			return strV(a[i+len(b):])
		}
		return strV("")
	case "substring":
		s := c.toStr(ev(0))
		st := c.toNum(ev(1))
		if len(args) > 2 {
			return strV(Substring(s, st, c.toNum(ev(2)), true))
		}
		return strV(Substring(s, st, 0, false))
	case "string-length":
		s, _ := c.argStr(f, 0)
		return numV(float64(len([]rune(s))))
	case "normalize-space":
		s, _ := c.argStr(f, 0)
		return strV(normalizeSpace(s))
	case "translate":
		return strV(translate(c.toStr(ev(0)), c.toStr(ev(1)), c.toStr(ev(2))))
	case "lower-case":
		return strV(strings.ToLower(c.toStr(ev(0))))
	case "string-join":
		v := ev(0)
		sep := c.toStr(ev(1))
		if v.T != TNodeSet {
			return strV(c.toStr(v))
		}
		parts := make([]string, len(v.NS))
		for i, n := range v.NS {
			parts[i] = t.StringValue(n)
		}
		return strV(strings.Join(parts, sep))
	case "matches":
		re, err := regexp.Compile(c.toStr(ev(1)))
		if err != nil {
			return undef()
		}
		return boolV(re.MatchString(c.toStr(ev(0))))
	case "replace":
		re, err := regexp.Compile(c.toStr(ev(1)))
		if err != nil {
			return undef()
		}
		return strV(re.ReplaceAllString(c.toStr(ev(0)), DollarBrace(c.toStr(ev(2)), re.NumSubexp())))
	}
	return undef() // not a function the reference defines (e.g. reverse, a sequence function)
}

// DollarBrace reads $n as group n: at every '$' followed by digits, the
// longest digit prefix that names an existing group (1..groups) becomes
// "${n}"; the remaining digits stay literal text. Everything else is left to
// Go's Expand syntax.
func DollarBrace(r string, groups int) string {
	var sb strings.Builder
	for i := 0; i < len(r); {
		if r[i] != '$' {
			sb.WriteByte(r[i])
			i++
			continue
		}
		j := i + 1
		for j < len(r) && r[j] >= '0' && r[j] <= '9' {
			j++
		}
		k := j
		for ; k > i+1; k-- {
			n, _ := strconv.Atoi(r[i+1 : k])
			if n >= 1 && n <= groups && r[i+1] != '0' {
				break
			}
		}
		if k > i+1 {
			sb.WriteString("${" + r[i+1:k] + "}")
			i = k
		} else {
			sb.WriteByte('$')
			i++
		}
	}
	return sb.String()
}

// Package instr rewrites the non-test source files of package xpath so that
// every statement is preceded by a scheduling point, and "sync" is replaced by
// the verifsync shim. The result is used through `go build -overlay`; /repo is
// never modified.
package instr

import (
	"bytes"
	"encoding/json"
	"fmt"
	"go/ast"
	"go/build"
	"go/parser"
	"go/printer"
	"go/token"
	"os"
	"path/filepath"
	"strconv"
	"strings"
)

// Site describes one instrumented statement.
type Site struct {
	ID   int    `json:"id"`
	File string `json:"file"`
	Line int    `json:"line"`
	Func string `json:"func"`
}

// Run instruments repo into outDir and writes outDir/overlay.json and
// outDir/sites.json. shimDir holds verifrt/ and verifsync/.
func Run(repo, outDir, shimDir string) (int, error) {
	ctx := build.Default
	ctx.BuildTags = append(ctx.BuildTags, "verif")
	entries, err := os.ReadDir(repo)
	if err != nil {
		return 0, err
	}
	overlay := map[string]string{}
	var sites []Site
	next := 1
	for _, e := range entries {
		name := e.Name()
		if e.IsDir() || !strings.HasSuffix(name, ".go") || strings.HasSuffix(name, "_test.go") {
			continue
		}
		ok, err := ctx.MatchFile(repo, name)
		if err != nil || !ok {
			continue
		}
		if strings.HasPrefix(name, "verif_") {
			continue // the hooks are harness code: called from invariants inside the scheduler, never scheduling points
		}
		src := filepath.Join(repo, name)
		fset := token.NewFileSet()
		f, err := parser.ParseFile(fset, src, nil, parser.ParseComments)
		if err != nil {
			return 0, err
		}
		// keep only build-constraint comments (they precede the package clause)
		var keep []*ast.CommentGroup
		for _, cg := range f.Comments {
			if cg.End() < f.Package {
				keep = append(keep, cg)
			}
		}
		f.Comments = keep
		usesSync := false
		for _, imp := range f.Imports {
			if imp.Path.Value == `"sync"` {
				imp.Path.Value = `"github.com/antchfx/xpath/verifsync"`
				imp.Name = ast.NewIdent("sync")
				usesSync = true
			}
		}
		_ = usesSync
		inst := &instrumenter{fset: fset, file: name, next: &next, sites: &sites}
		for _, d := range f.Decls {
			fd, ok := d.(*ast.FuncDecl)
			if !ok || fd.Body == nil {
				// function literals in package-level var initialisers
				ast.Inspect(d, func(n ast.Node) bool {
					if fl, ok := n.(*ast.FuncLit); ok {
						inst.fn = "init-literal"
						inst.block(fl.Body)
						return false
					}
					return true
				})
				continue
			}
			inst.fn = fd.Name.Name
			inst.block(fd.Body)
		}
		if inst.used {
			addImport(f, "github.com/antchfx/xpath/verifrt")
		}
		var buf bytes.Buffer
		if err := (&printer.Config{Mode: printer.UseSpaces | printer.TabIndent, Tabwidth: 8}).Fprint(&buf, fset, f); err != nil {
			return 0, err
		}
		dst := filepath.Join(outDir, name)
		if err := os.WriteFile(dst, buf.Bytes(), 0o644); err != nil {
			return 0, err
		}
		overlay[src] = dst
	}
	overlay[filepath.Join(repo, "verifrt", "rt.go")] = filepath.Join(shimDir, "verifrt", "rt.go")
	overlay[filepath.Join(repo, "verifsync", "sync.go")] = filepath.Join(shimDir, "verifsync", "sync.go")
	ob, _ := json.MarshalIndent(map[string]interface{}{"Replace": overlay}, "", " ")
	if err := os.WriteFile(filepath.Join(outDir, "overlay.json"), ob, 0o644); err != nil {
		return 0, err
	}
	sb, _ := json.Marshal(sites)
	if err := os.WriteFile(filepath.Join(outDir, "sites.json"), sb, 0o644); err != nil {
		return 0, err
	}
	return len(sites), nil
}

func addImport(f *ast.File, path string) {
	spec := &ast.ImportSpec{Path: &ast.BasicLit{Kind: token.STRING, Value: strconv.Quote(path)}}
	for _, d := range f.Decls {
		if gd, ok := d.(*ast.GenDecl); ok && gd.Tok == token.IMPORT {
			gd.Specs = append(gd.Specs, spec)
			if !gd.Lparen.IsValid() {
				gd.Lparen = gd.Pos()
				gd.Rparen = gd.End()
			}
			f.Imports = append(f.Imports, spec)
			return
		}
	}
	gd := &ast.GenDecl{Tok: token.IMPORT, Specs: []ast.Spec{spec}}
	f.Decls = append([]ast.Decl{gd}, f.Decls...)
	f.Imports = append(f.Imports, spec)
}

type instrumenter struct {
	fset  *token.FileSet
	file  string
	fn    string
	next  *int
	sites *[]Site
	used  bool
}

func (in *instrumenter) point(at ast.Node) ast.Stmt {
	id := *in.next
	*in.next++
	*in.sites = append(*in.sites, Site{ID: id, File: in.file, Line: in.fset.Position(at.Pos()).Line, Func: in.fn})
	in.used = true
	return &ast.ExprStmt{X: &ast.CallExpr{
		Fun:  &ast.SelectorExpr{X: ast.NewIdent("verifrt"), Sel: ast.NewIdent("Point")},
		Args: []ast.Expr{&ast.BasicLit{Kind: token.INT, Value: fmt.Sprint(id)}},
	}}
}

// block inserts a point before every statement of a block and recurses into
// nested blocks, clauses and function literals. The List of a switch/select
// body holds clauses, not statements: those are handled by the callers.
func (in *instrumenter) block(b *ast.BlockStmt) {
	if b == nil {
		return
	}
	b.List = in.stmts(b.List)
}

func (in *instrumenter) stmts(list []ast.Stmt) []ast.Stmt {
	var out []ast.Stmt
	for _, s := range list {
		in.inner(s)
		switch s.(type) {
		case *ast.LabeledStmt, *ast.DeclStmt, *ast.EmptyStmt:
			out = append(out, s)
			continue
		}
		out = append(out, in.point(s), s)
	}
	return out
}

// inner recurses into the statement's own nested bodies and literals.
func (in *instrumenter) inner(s ast.Stmt) {
	switch v := s.(type) {
	case *ast.BlockStmt:
		in.block(v)
	case *ast.IfStmt:
		in.lits(v.Init)
		in.lits(v.Cond)
		in.block(v.Body)
		if v.Else != nil {
			switch e := v.Else.(type) {
			case *ast.BlockStmt:
				in.block(e)
			case *ast.IfStmt:
				in.inner(e)
			}
		}
	case *ast.ForStmt:
		in.lits(v.Init)
		in.lits(v.Cond)
		in.lits(v.Post)
		in.block(v.Body)
	case *ast.RangeStmt:
		in.lits(v.X)
		in.block(v.Body)
	case *ast.SwitchStmt:
		in.lits(v.Init)
		in.lits(v.Tag)
		in.clauses(v.Body)
	case *ast.TypeSwitchStmt:
		in.lits(v.Init)
		in.lits(v.Assign)
		in.clauses(v.Body)
	case *ast.SelectStmt:
		in.clauses(v.Body)
	case *ast.LabeledStmt:
		in.inner(v.Stmt)
	default:
		in.lits(s)
	}
}

func (in *instrumenter) clauses(body *ast.BlockStmt) {
	for _, c := range body.List {
		switch cc := c.(type) {
		case *ast.CaseClause:
			for _, e := range cc.List {
				in.lits(e)
			}
			cc.Body = in.stmts(cc.Body)
		case *ast.CommClause:
			cc.Body = in.stmts(cc.Body)
		}
	}
}

// lits instruments the bodies of function literals found inside n (without
// descending into nested statements handled elsewhere).
func (in *instrumenter) lits(n ast.Node) {
	if n == nil || isNilNode(n) {
		return
	}
	ast.Inspect(n, func(x ast.Node) bool {
		if fl, ok := x.(*ast.FuncLit); ok {
			in.block(fl.Body)
			return false
		}
		return true
	})
}

func isNilNode(n ast.Node) bool {
	switch v := n.(type) {
	case ast.Stmt:
		return v == nil
	case ast.Expr:
		return v == nil
	}
	return false
}

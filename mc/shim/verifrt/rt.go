// Package verifrt is the run-time seam the instrumented copy of package xpath
// calls at every statement. It exists only in the -overlay build of the
// schedule explorer (mapped to <module>/verifrt); /repo never contains it.
package verifrt

import "sync/atomic"

var (
	on   uint32
	hook func(site int)
)

// Point is called before every statement of the instrumented package.
func Point(site int) {
	if atomic.LoadUint32(&on) != 0 {
		hook(site)
	}
}

// Install sets the scheduler callback; Enable/Disable switch it.
func Install(h func(site int)) { hook = h }
func Enable()                  { atomic.StoreUint32(&on, 1) }
func Disable()                 { atomic.StoreUint32(&on, 0) }
func Enabled() bool            { return atomic.LoadUint32(&on) != 0 }

// Blocking primitives are routed through these so that the scheduler can
// model a waiting thread as disabled.
var (
	// Acquire blocks the calling thread until try() succeeds. Under the
	// scheduler it re-tries try() each time the thread is scheduled and marks
	// the thread disabled while it fails; outside it is never called.
	Acquire func(obj interface{}, try func() bool)
	// Released tells the scheduler that threads blocked on obj may retry.
	Released func(obj interface{})
)

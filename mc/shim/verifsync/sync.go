// Package verifsync replaces "sync" inside the instrumented copy of package
// xpath: same method sets, but every operation is a scheduling point and
// blocking is visible to the cooperative scheduler. Outside an exploration it
// delegates to the real sync types.
package verifsync

import (
	"sync"

	"github.com/antchfx/xpath/verifrt"
)

// Site numbers of the synchronisation operations (negative: not statements).
const (
	SiteRLock   = -1
	SiteRUnlock = -2
	SiteLock    = -3
	SiteUnlock  = -4
	SitePoolGet = -5
	SitePoolPut = -6
)

type RWMutex struct {
	real    sync.RWMutex
	writer  bool
	readers int
}

func (m *RWMutex) RLock() {
	if !verifrt.Enabled() {
		m.real.RLock()
		return
	}
	verifrt.Point(SiteRLock)
	verifrt.Acquire(m, func() bool {
		if m.writer {
			return false
		}
		m.readers++
		return true
	})
}

func (m *RWMutex) RUnlock() {
	if !verifrt.Enabled() {
		m.real.RUnlock()
		return
	}
	verifrt.Point(SiteRUnlock)
	if m.readers <= 0 {
		panic("verifsync: RUnlock of unlocked RWMutex")
	}
	m.readers--
	verifrt.Released(m)
}

func (m *RWMutex) Lock() {
	if !verifrt.Enabled() {
		m.real.Lock()
		return
	}
	verifrt.Point(SiteLock)
	verifrt.Acquire(m, func() bool {
		if m.writer || m.readers > 0 {
			return false
		}
		m.writer = true
		return true
	})
}

func (m *RWMutex) Unlock() {
	if !verifrt.Enabled() {
		m.real.Unlock()
		return
	}
	verifrt.Point(SiteUnlock)
	if !m.writer {
		panic("verifsync: Unlock of unlocked RWMutex")
	}
	m.writer = false
	verifrt.Released(m)
}

// Held reports the model state (for invariants evaluated at scheduling points).
func (m *RWMutex) Held() (writer bool, readers int) { return m.writer, m.readers }

type Mutex struct{ rw RWMutex }

func (m *Mutex) Lock()   { m.rw.Lock() }
func (m *Mutex) Unlock() { m.rw.Unlock() }

// Pool is a deterministic LIFO shared by all threads while exploring (so that
// reuse of an object by another thread is actually explored and sync.Pool's
// per-P nondeterminism is owned); outside it is the real sync.Pool.
type Pool struct {
	New   func() interface{}
	real  sync.Pool
	once  sync.Once
	items []interface{}

	registered bool
}

// pools registers every model pool that was used, so that the scheduler can
// empty them between executions (each execution starts from the same state).
var pools []*Pool

func (p *Pool) register() {
	if !p.registered {
		p.registered = true
		pools = append(pools, p)
	}
}

// ResetAll empties every model pool.
func ResetAll() {
	for _, p := range pools {
		p.items = nil
	}
}

func (p *Pool) Get() interface{} {
	if !verifrt.Enabled() {
		p.once.Do(func() { p.real.New = p.New })
		return p.real.Get()
	}
	p.register()
	verifrt.Point(SitePoolGet)
	if n := len(p.items); n > 0 {
		x := p.items[n-1]
		p.items = p.items[:n-1]
		return x
	}
	if p.New != nil {
		return p.New()
	}
	return nil
}

func (p *Pool) Put(x interface{}) {
	if !verifrt.Enabled() {
		p.once.Do(func() { p.real.New = p.New })
		p.real.Put(x)
		return
	}
	p.register()
	verifrt.Point(SitePoolPut)
	p.items = append(p.items, x)
}

// Reset empties the model pool between executions.
func (p *Pool) Reset() { p.items = nil }

// Types the package does not use today but a refactoring might: passed through
// unchanged (their operations are not scheduling points).
type Once = sync.Once
type WaitGroup = sync.WaitGroup
type Map = sync.Map
type Locker = sync.Locker
type Cond = sync.Cond

func NewCond(l sync.Locker) *sync.Cond { return sync.NewCond(l) }

func (m *RWMutex) RLocker() sync.Locker { return rlocker{m} }

type rlocker struct{ m *RWMutex }

func (r rlocker) Lock()   { r.m.RLock() }
func (r rlocker) Unlock() { r.m.RUnlock() }

func (m *RWMutex) TryLock() bool {
	if !verifrt.Enabled() {
		return m.real.TryLock()
	}
	verifrt.Point(SiteLock)
	if m.writer || m.readers > 0 {
		return false
	}
	m.writer = true
	return true
}

func (m *RWMutex) TryRLock() bool {
	if !verifrt.Enabled() {
		return m.real.TryRLock()
	}
	verifrt.Point(SiteRLock)
	if m.writer {
		return false
	}
	m.readers++
	return true
}

func (m *Mutex) TryLock() bool { return m.rw.TryLock() }

// Package gen holds the reference expression AST (what the oracle evaluates)
// and the renderers that produce the strings handed to the engine. The oracle
// never parses what the engine parses.
package gen

import (
	"strconv"
	"strings"
)

// Expr is one of *Path, *Bin, *Neg, *Call, *Str, *Num, *Group, *Seq.
type Expr interface{ render(sb *strings.Builder) }

// Test is a node test.
type Test struct {
	Kind   string // "name", "*", "node", "text", "comment", "prefix:*"
	Prefix string
	Local  string
}

func (t Test) String() string {
	switch t.Kind {
	case "name":
		if t.Prefix != "" {
			return t.Prefix + ":" + t.Local
		}
		return t.Local
	case "*":
		return "*"
	case "prefix:*":
		return t.Prefix + ":*"
	case "pi":
		if t.Local != "" {
			return "processing-instruction('" + t.Local + "')"
		}
		return "processing-instruction()"
	}
	return t.Kind + "()"
}

// Step is a semantic location step. Abbr selects the surface form:
//
//	""   unabbreviated  axis::test
//	"."  ".."  "@" (attribute::test as @test)  "c" (child::test as test)
//	"//" the descendant-or-self::node() step hidden inside a '//' separator
type Step struct {
	Axis  string
	Test  Test
	Preds []Expr
	Abbr  string
	// Seq, when non-nil, makes this step the engine's sequence form
	// (s1, s2, ...): the union of the member steps applied to each context.
	Seq []Step
}

func (s Step) text(sb *strings.Builder) {
	switch s.Abbr {
	case "//":
		return
	case ".":
		sb.WriteString(".")
	case "..":
		sb.WriteString("..")
	case "@":
		sb.WriteString("@" + s.Test.String())
	case "c":
		sb.WriteString(s.Test.String())
	default:
		if s.Seq != nil {
			sb.WriteString("(")
			for i, m := range s.Seq {
				if i > 0 {
					sb.WriteString(", ")
				}
				m.text(sb)
			}
			sb.WriteString(")")
		} else {
			sb.WriteString(s.Axis + "::" + s.Test.String())
		}
	}
	for _, p := range s.Preds {
		sb.WriteString("[")
		p.render(sb)
		sb.WriteString("]")
	}
}

// Path is a location path. Start, when non-nil, is a filter expression the
// steps continue from (PathExpr ::= FilterExpr '/' RelativeLocationPath).
type Path struct {
	Abs   bool
	Start Expr
	Steps []Step
}

func (p *Path) render(sb *strings.Builder) {
	if p.Start != nil {
		p.Start.render(sb)
		for _, s := range p.Steps {
			sb.WriteString("/")
			s.text(sb)
		}
		return
	}
	if p.Abs {
		sb.WriteString("/")
	}
	for i, s := range p.Steps {
		if i > 0 {
			sb.WriteString("/")
		}
		s.text(sb)
	}
}

// Filter is PrimaryExpr Predicate* (e.g. (path)[1]).
type Filter struct {
	Primary Expr
	Preds   []Expr
}

func (f *Filter) render(sb *strings.Builder) {
	f.Primary.render(sb)
	for _, p := range f.Preds {
		sb.WriteString("[")
		p.render(sb)
		sb.WriteString("]")
	}
}

type Group struct{ E Expr }

func (g *Group) render(sb *strings.Builder) {
	sb.WriteString("(")
	g.E.render(sb)
	sb.WriteString(")")
}

type Bin struct {
	Op   string
	L, R Expr
	// GlueL renders no blank between the left operand and the operator
	// ("6div 3"): legal XPath when the left operand ends in a digit, '.', ')'
	// or ']' (the caller's business).
	GlueL bool
}

// Prec is the XPath 1.0 binding strength of a binary operator.
func Prec(op string) int {
	switch op {
	case "or":
		return 1
	case "and":
		return 2
	case "=", "!=":
		return 3
	case "<", "<=", ">", ">=":
		return 4
	case "+", "-":
		return 5
	case "*", "div", "mod":
		return 6
	case "|":
		return 8
	}
	return 9
}

func exprPrec(e Expr) int {
	switch v := e.(type) {
	case *Bin:
		return Prec(v.Op)
	case *Neg:
		return 7
	}
	return 10
}

// render keeps the string faithful to the AST: an operand that binds less
// tightly than its parent (or equally, on the right of a left-associative
// operator) is parenthesised.
func (b *Bin) render(sb *strings.Builder) {
	p := Prec(b.Op)
	paren := func(e Expr, need bool) {
		if need {
			sb.WriteString("(")
		}
		e.render(sb)
		if need {
			sb.WriteString(")")
		}
	}
	paren(b.L, exprPrec(b.L) < p)
	if b.GlueL {
		sb.WriteString(b.Op + " ")
	} else {
		sb.WriteString(" " + b.Op + " ")
	}
	paren(b.R, exprPrec(b.R) <= p)
}

type Neg struct{ E Expr }

func (n *Neg) render(sb *strings.Builder) {
	sb.WriteString("-")
	if _, ok := n.E.(*Bin); ok && exprPrec(n.E) < 8 {
		sb.WriteString("(")
		n.E.render(sb)
		sb.WriteString(")")
		return
	}
	n.E.render(sb)
}

type Call struct {
	Name string
	Args []Expr
}

func (c *Call) render(sb *strings.Builder) {
	sb.WriteString(c.Name + "(")
	for i, a := range c.Args {
		if i > 0 {
			sb.WriteString(", ")
		}
		a.render(sb)
	}
	sb.WriteString(")")
}

type Str struct{ V string }

func (s *Str) render(sb *strings.Builder) {
	q := "'"
	if strings.Contains(s.V, "'") {
		q = "\""
	}
	sb.WriteString(q + s.V + q)
}

// Num is a number literal; Lit is its surface text (e.g. ".5", "1.").
type Num struct {
	V   float64
	Lit string
}

func (n *Num) render(sb *strings.Builder) {
	if n.Lit != "" {
		sb.WriteString(n.Lit)
		return
	}
	sb.WriteString(strconv.FormatFloat(n.V, 'f', -1, 64))
}

// Var is a variable reference ($name).
type Var struct{ Name string }

func (v *Var) render(sb *strings.Builder) { sb.WriteString("$" + v.Name) }

// Render gives the canonical string of an expression.
func Render(e Expr) string {
	var sb strings.Builder
	e.render(&sb)
	return sb.String()
}

// ---- convenience constructors -------------------------------------------

func N(v float64) *Num              { return &Num{V: v} }
func S(v string) *Str               { return &Str{V: v} }
func F(name string, a ...Expr) *Call { return &Call{Name: name, Args: a} }
func B(op string, l, r Expr) *Bin   { return &Bin{Op: op, L: l, R: r} }
func P(steps ...Step) *Path         { return &Path{Steps: steps} }
func AbsP(steps ...Step) *Path      { return &Path{Abs: true, Steps: steps} }

func NameT(n string) Test {
	if i := strings.IndexByte(n, ':'); i >= 0 {
		if n[i+1:] == "*" {
			return Test{Kind: "prefix:*", Prefix: n[:i]}
		}
		return Test{Kind: "name", Prefix: n[:i], Local: n[i+1:]}
	}
	switch n {
	case "*":
		return Test{Kind: "*"}
	case "node()":
		return Test{Kind: "node"}
	case "text()":
		return Test{Kind: "text"}
	case "comment()":
		return Test{Kind: "comment"}
	}
	return Test{Kind: "name", Local: n}
}

// St builds an unabbreviated step.
func St(axis, test string, preds ...Expr) Step {
	return Step{Axis: axis, Test: NameT(test), Preds: preds}
}

// Ch builds an abbreviated child step.
func Ch(test string, preds ...Expr) Step {
	return Step{Axis: "child", Test: NameT(test), Preds: preds, Abbr: "c"}
}

// At builds an abbreviated attribute step.
func At(test string, preds ...Expr) Step {
	return Step{Axis: "attribute", Test: NameT(test), Preds: preds, Abbr: "@"}
}

func Dot() Step    { return Step{Axis: "self", Test: Test{Kind: "node"}, Abbr: "."} }
func DotDot() Step { return Step{Axis: "parent", Test: Test{Kind: "node"}, Abbr: ".."} }
// DSlash2 is the relative path .//* (as steps), for operand lists.
func DSlash2() []Step { return []Step{Dot(), DSlash(), Ch("*")} }

func DSlash() Step {
	return Step{Axis: "descendant-or-self", Test: Test{Kind: "node"}, Abbr: "//"}
}

var Axes = []string{
	"ancestor", "ancestor-or-self", "attribute", "child", "descendant",
	"descendant-or-self", "following", "following-sibling", "parent",
	"preceding", "preceding-sibling", "self",
}

// Skeleton abstracts an expression to the shape that identifies a defect:
// axes, operators, function names and node-test kinds are kept; names,
// literals and numbers become sort markers.
func Skeleton(e Expr) string {
	var sb strings.Builder
	skel(e, &sb)
	return sb.String()
}

func skelStep(s Step, sb *strings.Builder) {
	if s.Seq != nil {
		sb.WriteString("(")
		for i, m := range s.Seq {
			if i > 0 {
				sb.WriteString(",")
			}
			skelStep(m, sb)
		}
		sb.WriteString(")")
	} else {
		switch s.Abbr {
		case "//":
			sb.WriteString("DOS")
		case ".", "..":
			sb.WriteString(s.Abbr)
		default:
			sb.WriteString(s.Axis + "::")
			switch s.Test.Kind {
			case "name":
				if s.Test.Prefix != "" {
					sb.WriteString("P:")
				}
				sb.WriteString("N")
			case "prefix:*":
				sb.WriteString("P:*")
			default:
				sb.WriteString(s.Test.String())
			}
		}
	}
	for _, p := range s.Preds {
		sb.WriteString("[")
		skel(p, sb)
		sb.WriteString("]")
	}
}

func skel(e Expr, sb *strings.Builder) {
	switch v := e.(type) {
	case *Path:
		if v.Start != nil {
			skel(v.Start, sb)
			sb.WriteString("/")
		} else if v.Abs {
			sb.WriteString("/")
		}
		for i, s := range v.Steps {
			if i > 0 {
				sb.WriteString("/")
			}
			skelStep(s, sb)
		}
	case *Filter:
		skel(v.Primary, sb)
		for _, p := range v.Preds {
			sb.WriteString("[")
			skel(p, sb)
			sb.WriteString("]")
		}
	case *Group:
		sb.WriteString("(")
		skel(v.E, sb)
		sb.WriteString(")")
	case *Bin:
		skel(v.L, sb)
		sb.WriteString(" " + v.Op + " ")
		skel(v.R, sb)
	case *Neg:
		sb.WriteString("-")
		skel(v.E, sb)
	case *Call:
		sb.WriteString(v.Name + "(")
		for i, a := range v.Args {
			if i > 0 {
				sb.WriteString(",")
			}
			skel(a, sb)
		}
		sb.WriteString(")")
	case *Str:
		sb.WriteString("S")
	case *Num:
		sb.WriteString("#")
	case *Var:
		sb.WriteString("$V")
	}
}

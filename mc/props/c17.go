package props

import (
	"strings"
	"time"

	"verif/mc/eng"
	"verif/mc/explore"
	"verif/mc/gen"
	"verif/mc/ref"
	"verif/mc/report"
)

type damaged struct {
	op   string // damage operator
	kind string // construct kind it was applied to
	s    string
}

// damages applies every damage operator of the property at every applicable
// position of a valid expression.
func damages(s string, toks []ref.Tok) []damaged {
	var out []damaged
	add := func(op, kind, d string) {
		if d != s && d != "" {
			out = append(out, damaged{op, kind, d})
		}
	}
	// matching brackets
	match := map[int]int{}
	var stack []int
	for i, t := range toks {
		switch t.Kind {
		case "(", "[":
			stack = append(stack, i)
		case ")", "]":
			if len(stack) > 0 {
				match[stack[len(stack)-1]] = i
				stack = stack[:len(stack)-1]
			}
		}
	}
	for i, t := range toks {
		switch t.Kind {
		case "op":
			k := "operator"
			if t.Text == "/" || t.Text == "//" {
				k = "slash"
			}
			add("cut-after", k, s[:t.End])
		case "[", "(", ",", "@", "::":
			add("cut-after", t.Kind, s[:t.End])
		case "lit":
			add("cut-after", "quote", s[:t.Pos+1])
			add("cut-inside", "quote", s[:t.End-1])
			add("delete-closing", "quote", s[:t.End-1]+s[t.End:])
		case "]", ")":
			add("delete-closing", t.Kind, s[:t.Pos]+s[t.End:])
		case "func":
			for _, nn := range []string{"nosuchfn", "Count", "starts_with", "string-lengthx", strings.ToUpper(t.Text)} {
				add("rename-function", "function", s[:t.Pos]+nn+s[t.End:])
			}
			// remove arguments below the required minimum
			if i+1 < len(toks) && toks[i+1].Kind == "(" {
				cl, ok := match[i+1]
				if ok {
					var commas []int
					depth := 0
					for k := i + 2; k < cl; k++ {
						switch toks[k].Kind {
						case "(", "[":
							depth++
						case ")", "]":
							depth--
						case ",":
							if depth == 0 {
								commas = append(commas, k)
							}
						}
					}
					nargs := 0
					if cl > i+2 {
						nargs = len(commas) + 1
					}
					min := ref.Arity[t.Text][0]
					for keep := min - 1; keep >= 0 && keep < nargs; keep-- {
						var end int
						if keep == 0 {
							end = toks[i+1].End
						} else {
							end = toks[commas[keep-1]].Pos
						}
						add("remove-arguments", "function", s[:end]+s[toks[cl].Pos:])
					}
				}
			}
		case "axis":
			for _, nn := range []string{"childs", "Child", "descendent", "self-or", strings.ToUpper(t.Text)} {
				add("unknown-axis", "axis", s[:t.Pos]+nn+s[t.End:])
			}
			// near misses of EVERY axis name: one letter more / fewer, a suffix, a
			// prefix, another axis name's tail (an axis must be matched whole)
			for _, ax := range knownAxes {
				for _, nn := range []string{ax + "s", ax + "x", ax + "2", ax[:len(ax)-1], ax[1:], "x" + ax, ax + "-x", ax + "-or-child", ax + "_", strings.ToUpper(ax[:1]) + ax[1:]} {
					if !isKnownAxis(nn) {
						add("unknown-axis", "axis", s[:t.Pos]+nn+s[t.End:])
					}
				}
			}
		case "name":
			if t.Text == "*" {
				continue
			}
			local := t.Text
			if j := strings.IndexByte(local, ':'); j >= 0 {
				local = local[j+1:]
			}
			if local == "*" {
				local = "a"
			}
			for _, nn := range []string{local + ":", ":" + local, "p:" + local + ":c", "p: " + local, "p :" + local, local + ":1", "p:" + local + ":"} {
				add("malformed-qname", "name", s[:t.Pos]+nn+s[t.End:])
			}
		}
	}
	return out
}

func c17Valid(tier string) []string {
	var out []string
	forms := stepForms(allTests, true)
	for _, p := range pathsN(forms, 1) {
		out = append(out, gen.Render(p))
	}
	s2 := pathsN(forms, 2)
	k := 8
	if tier == "thorough" {
		k = 1
	}
	for i := 0; i < len(s2); i += k {
		out = append(out, gen.Render(s2[i]))
	}
	atoms := boolAtoms()
	for hi, h := range reprHosts() {
		for ai, a := range atoms {
			if tier == "thorough" || (hi*7+ai)%2 == 0 {
				out = append(out, gen.Render(relPath(withPred(h, a))))
			}
		}
	}
	nums, strs, nss, bools := numOperands(), strOperands(), nsOperands(), boolOperands()
	for _, op := range cmpOps {
		for i, a := range nss {
			out = append(out, gen.Render(gen.B(op, a, nums[i%len(nums)])), gen.Render(gen.B(op, strs[i%len(strs)], a)), gen.Render(gen.B(op, a, nss[(i+3)%len(nss)])))
		}
	}
	for _, op := range []string{"and", "or", "+", "-", "*", "div", "mod", "|"} {
		for i, a := range nss {
			out = append(out, gen.Render(gen.B(op, a, nss[(i+1)%len(nss)])))
		}
		out = append(out, gen.Render(gen.B(op, bools[0], bools[2])))
	}
	// every function with literal and path arguments (both quote styles)
	out = append(out,
		`boolean(a)`, `ceiling(1.5)`, `concat('a', "b")`, `concat(a, 'x', @b)`, `contains(a, 'x')`, `count(a/b)`, `ends-with(a, "x")`, `false()`, `floor(a)`,
		`last()`, `local-name(a)`, `local-name()`, `lower-case('A')`, `matches(a, 'x+')`, `name(..)`, `name()`, `namespace-uri(a)`, `normalize-space(a)`, `normalize-space()`,
		`not(a)`, `number(a)`, `number('1')`, `position()`, `replace(a, 'x', "y")`, `reverse(a)`, `round(1.5)`, `starts-with(a, 'x')`, `string(a)`, `string(1)`,
		`string-join(a, ',')`, `string-length(a)`, `substring(a, 1)`, `substring('abc', 1, 2)`, `substring-after(a, 'x')`, `substring-before(a, "x")`, `sum(a)`,
		`translate(a, 'ab', "AB")`, `true()`, `count(a[b]) > 1`, `a[count(b) = 2]/c`, `a[contains(b, 'x')][1]`, `//a[not(@b)]/c`, `concat(substring(a, 1, 2), 'x')`,
		`(a)`, `(a | b)`, `(a | b)[1]`, `(a)/b`, `(//a)[2]/b`, `((a))`, `(1 + 2) * 3`, `-(a)`, `a | b | c`, `a[b][c]`, `a[(b)]`, `a[b[c]]`, `a[(b or c) and d]`,
		`p:a`, `p:a/q:b`, `@p:a`, `child::p:a`, `p:*`, `//p:a[@q:b = 'x']`, `a[@b = "it's"]`, `a[. = 'say "x"']`, `/`, `/a`, `//a`, `a/b//c/@d`, `../a`, `./a`, `a/..`,
		`ancestor::a[1]`, `following-sibling::*[last()]`, `descendant-or-self::node()/a`, `self::a`, `attribute::*`, `parent::a/child::b`, `preceding::text()`,
		`true() or contains(a, 'x')`, `false() and count(a) > 1`, `a[true() or starts-with(b, 'x')]`, `true() or child::a`, `false() and string-length(a) > 0`, `a[false() and sum(child::b) = 1]`,
		`1 = 1 or contains(a, 'x')`, `true() and contains(a, 'x') or child::b`, `not(true()) and floor(child::a) = 1`, `a[1 or contains(b, 'x')]`, `'s' or name(child::a)`, `0 and translate(a, 'b', 'c')`,
		`a/(b, c)`, `//a/(b, c, d)`, `a/(b[1], @c)/d`, `a/(b, c)[1]`, `*/(text(), comment())`, `a/(b)`, `/a/(b, c)/..`, `a[b/(c, d)]`, `count(a/(b, c))`, `a/(child::b, descendant::c)`,
		`a + b - c`, `a * b div c mod d`, `a = b != c`, `a < b <= c > d >= e`, `a or b and c`, `- a`, `--a`, `1`, `1.5`, `.5`, `'s'`, `"s"`)
	// a nested call, a path with an explicit axis and a prefixed name in EVERY
	// argument position of every function (damage inside an argument must not
	// be swallowed by the enclosing call)
	fill := []string{"a", "1", "'s'"}
	nested := []string{"count(b)", "string-length(b)", "child::c", "name(c)", "p:d", "concat('x', 'y')", "b[count(c) > 1]"}
	var fnames []string
	for n := range ref.Arity {
		fnames = append(fnames, n)
	}
	for i := 1; i < len(fnames); i++ {
		for j := i; j > 0 && fnames[j-1] > fnames[j]; j-- {
			fnames[j-1], fnames[j] = fnames[j], fnames[j-1]
		}
	}
	for _, fn := range fnames {
		ar := ref.Arity[fn]
		max := ar[1]
		if max < 0 {
			max = 3
		}
		for n := ar[0]; n <= max; n++ {
			for pos := 0; pos < n; pos++ {
				for _, ne := range nested {

					args := make([]string, n)
					for k := range args {
						args[k] = fill[k%len(fill)]
					}
					args[pos] = ne
					call := fn + "(" + strings.Join(args, ", ") + ")"
					out = append(out, call, "//a["+call+"]")
				}
			}
		}
	}
	return out
}

func c17Spaces(tier string) []*explore.Space {
	valid := c17Valid(tier)
	return []*explore.Space{{
		Name: "Damage", Desc: "every damage operator at every applicable position of every valid expression of the slice", Size: len(valid),
		Label: func(i int) string { return valid[i] },
		Run: func(i int, w *explore.Worker) {
			s := valid[i]
			toks, err := ref.Tokenize(s)
			if err != nil {
				w.Count("base_not_valid_for_reference", 1)
				return
			}
			if _, err := ref.ParseExt(s); err != nil {
				w.Count("base_not_valid_for_reference", 1)
				return
			}
			w.Sample(s)
			for _, d := range damages(s, toks) {
				if _, err := ref.ParseExt(d.s); err == nil {
					// the damaged string is still a valid XPath 1.0 expression (e.g. "1 + /")
					w.Count("damage_still_valid", 1)
					continue
				}
				w.Eval()
				w.NonTrivialCase(d.kind + "/" + d.op + "/" + s)
				w.RefOutcome(d.kind + "/" + d.op)
				e, cerr, pan := eng.Compile(d.s, false, nil)
				if pan == nil && cerr != nil && e == nil {
					w.EngOutcome("rejected")
					continue
				}
				got := "accepted"
				if pan != nil {
					got = "compile-" + pan.String()
				}
				w.EngOutcome(got)
				w.Violation(&report.Case{Kind: "compile", Expr: d.s, Expected: "compile-error", Got: got, Class: "accepted",
					Note: "damage " + d.op + " on " + d.kind + " of valid expression " + s,
					Sig:  "C17|" + d.kind + "/" + d.op + "|" + skelOrRaw(s), Weight: len(d.s)})
			}
		},
	}}
}

func skelOrRaw(s string) string {
	if ast, err := ref.ParseExt(s); err == nil {
		return gen.Skeleton(ast)
	}
	return s
}

var knownAxes = []string{"ancestor", "ancestor-or-self", "attribute", "child", "descendant", "descendant-or-self", "following", "following-sibling", "namespace", "parent", "preceding", "preceding-sibling", "self"}

func isKnownAxis(s string) bool {
	for _, a := range knownAxes {
		if a == s {
			return true
		}
	}
	return false
}

func init() {
	explore.Register(&explore.Property{
		ID: "C17", Level: "exploration",
		Rule: "every valid expression of a slice touching every construct (paths, predicates, comparisons, every function, unions, groups, both quote styles, prefixed names) is damaged by every operator of the property at every applicable position: cut after an operator / slash / [ / ( / , / @ / :: / inside a literal; delete one closing ] ) or quote; rename a function to an unknown name; remove arguments below the function's minimum; unknown axis names (five fixed ones plus ten near misses of EVERY axis name: one letter more / fewer, prefix, suffix); malformed qualified names. Compile must return an error for every damaged string that the reference XPath 1.0 grammar (with the function table) also rejects; damaged strings the reference accepts are counted as damage_still_valid and skipped; non-trivial/distinct = distinct (construct, damage operator, expression)",
		Assumptions:    []string{"hand-written reference grammar decides which damaged strings are ill-formed", "function arity table = XPath 1.0 core + README extras"},
		Budget:         budget(60*time.Second, 8*time.Minute),
		MinRefOutcomes: 8,
		Spaces:         c17Spaces,
	})
}

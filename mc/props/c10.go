package props

import (
	"fmt"
	"strings"
	"time"

	"github.com/antchfx/xpath"

	"verif/mc/doc"
	"verif/mc/eng"
	"verif/mc/explore"
	"verif/mc/gen"
	"verif/mc/ref"
	"verif/mc/report"
)

var binOps = []string{"or", "and", "=", "!=", "<", "<=", ">", ">=", "+", "-", "*", "div", "mod", "|"}

// chainString renders operand/operator chains: x1 op x2 op x3 ...; neg is a
// bitmask of operands preceded by a unary minus.
func chainString(ops []int, neg int) string {
	var sb strings.Builder
	for i := 0; i <= len(ops); i++ {
		if i > 0 {
			sb.WriteString(" " + binOps[ops[i-1]] + " ")
		}
		if neg>>uint(i)&1 == 1 {
			sb.WriteString("-")
		}
		fmt.Fprintf(&sb, "x%d", i+1)
	}
	return sb.String()
}

// parseAgree is the C10 oracle on one string: the engine's parse tree must be
// the reference parse tree.
func parseAgree(s string) (expected, got string, ok bool) {
	ast, err := ref.Parse(s)
	if err != nil {
		return "reference rejects: " + err.Error(), "", true // outside the property: only valid expressions are compared
	}
	expected = ref.TreeString(ast)
	got, gerr := xpath.VerifParseTree(s, nil)
	if gerr != nil {
		return expected, "error: " + gerr.Error(), false
	}
	return expected, got, expected == got
}

func init() {
	report.RegisterReplayer("parse", func(c *report.Case) (string, bool, error) {
		_, got, ok := parseAgree(c.Expr)
		return got, ok, nil
	})
}

func parseViolation(w *explore.Worker, space, s, expected, got, sigTail string) {
	w.Violation(&report.Case{Kind: "parse", Expr: s, Expected: expected, Got: got, Class: "parse-tree",
		Sig: "C10|" + space + "|" + sigTail, Weight: len(s)})
}

// chainSpace enumerates every operator chain with exactly n operators; item =
// first operator (x remaining ops inside).
func chainSpace(n int, withNeg bool) *explore.Space {
	k := len(binOps)
	return &explore.Space{
		Name: fmt.Sprintf("G1-%dops%s", n, ternary(withNeg, "-neg", "")), Desc: fmt.Sprintf("every chain of %d binary operators over 14 operators%s", n, ternary(withNeg, " x every subset of operands negated", "")),
		Size:  k,
		Label: func(i int) string { return binOps[i] + " ..." },
		Run: func(first int, w *explore.Worker) {
			ops := make([]int, n)
			ops[0] = first
			total := 1
			for i := 1; i < n; i++ {
				total *= k
			}
			for code := 0; code < total; code++ {
				c := code
				for i := 1; i < n; i++ {
					ops[i] = c % k
					c /= k
				}
				negs := 1
				if withNeg {
					negs = 1 << uint(n+1)
				}
				for neg := 0; neg < negs; neg++ {
					s := chainString(ops, neg)
					w.Eval()
					if n >= 2 {
						w.NonTrivialCase(s)
					}
					if code == 0 && neg == 0 {
						w.Sample(s)
					}
					exp, got, ok := parseAgree(s)
					w.RefOutcome(ternary(strings.HasPrefix(exp, "reference rejects"), "invalid", "valid"))
					if ok {
						w.EngOutcome("agree")
						continue
					}
					w.EngOutcome("differ")
					// signature: the operator pair where the grouping first differs is not
					// known; use the multiset of precedence levels involved
					var names []string
					for _, o := range ops {
						names = append(names, binOps[o])
					}
					parseViolation(w, "G1", s, exp, got, strings.Join(names, ",")+ternary(neg != 0, "|neg", ""))
				}
			}
		},
	}
}

// operandForms: every lexical shape an operand can start or end with (what the
// tokenizer sees next to an operator decides how the operator is read).
var operandForms = []string{"x", "(x)", "count(x)", "1.", ".5", "12", "'s'", "$v", "*", "@x", "div", "and", "x/y", "/x", ".", "..", "x[1]", "text()", "child::x", "p:x", "(1)"}

// formChainSpace: every chain of n operators x every assignment of operand
// forms to the n+1 operands, rendered with single blanks; item = first operator.
func formChainSpace(n int, forms []string) *explore.Space {
	k := len(binOps)
	f := len(forms)
	return &explore.Space{
		Name: fmt.Sprintf("G4-%dops", n), Desc: fmt.Sprintf("every chain of %d binary operators x every assignment of %d operand forms (names, parenthesised, calls, number spellings, literals, variables, *, @x, operator names used as element names, paths, abbreviations, predicates, node tests, axes, QNames) to its operands", n, f),
		Size:  k,
		Label: func(i int) string { return binOps[i] + " ... (operand forms)" },
		Run: func(first int, w *explore.Worker) {
			ops := make([]int, n)
			ops[0] = first
			total := 1
			for i := 1; i < n; i++ {
				total *= k
			}
			ftotal := 1
			for i := 0; i <= n; i++ {
				ftotal *= f
			}
			for code := 0; code < total; code++ {
				c := code
				for i := 1; i < n; i++ {
					ops[i] = c % k
					c /= k
				}
				for fc := 0; fc < ftotal; fc++ {
					var sb strings.Builder
					x := fc
					var used []string
					for i := 0; i <= n; i++ {
						if i > 0 {
							sb.WriteString(" " + binOps[ops[i-1]] + " ")
						}
						sb.WriteString(forms[x%f])
						used = append(used, forms[x%f])
						x /= f
					}
					s := sb.String()
					w.Eval()
					w.NonTrivialCase(s)
					if code == 0 && fc == ftotal/2 {
						w.Sample(s)
					}
					exp, got, ok := parseAgree(s)
					w.RefOutcome(ternary(strings.HasPrefix(exp, "reference rejects"), "invalid", "valid"))
					if ok {
						w.EngOutcome("agree")
						continue
					}
					w.EngOutcome("differ")
					var names []string
					for _, o := range ops {
						names = append(names, binOps[o])
					}
					parseViolation(w, "G4", s, exp, got, strings.Join(names, ",")+"|"+strings.Join(used, " "))
				}
			}
		},
	}
}

// ---- G2: whitespace -------------------------------------------------------

func sameToks(a, b []ref.Tok) bool {
	if len(a) != len(b) {
		return false
	}
	for i := range a {
		if a[i].Kind != b[i].Kind || a[i].Text != b[i].Text {
			return false
		}
	}
	return true
}

var wsChoices = []string{"", " ", "\t\n"}

func wsSpace(name, desc string, exprs []string, docs func() []*doc.Tree) *explore.Space {
	return &explore.Space{
		Name: name, Desc: desc, Size: len(exprs),
		Label: func(i int) string { return exprs[i] },
		Run: func(i int, w *explore.Worker) {
			s := exprs[i]
			toks, err := ref.Tokenize(s)
			if err != nil {
				w.InternalError("G2 base expression does not tokenize: " + s)
				return
			}
			baseAST, perr := ref.Parse(s)
			if perr != nil {
				w.InternalError("G2 base expression invalid for the reference: " + s + ": " + perr.Error())
				return
			}
			baseTree := ref.TreeString(baseAST)
			w.Sample(s)
			gaps := len(toks) + 1 // before each token and after the last
			if gaps > 9 {
				gaps = 9 // gaps beyond the 9th keep the canonical spacing
			}
			total := 1
			for g := 0; g < gaps; g++ {
				total *= len(wsChoices)
			}
			// canonical separators of the base string
			sep := make([]string, len(toks)+1)
			prev := 0
			for k, t := range toks {
				sep[k] = s[prev:t.Pos]
				prev = t.End
			}
			sep[len(toks)] = s[prev:]
			var baseVals []string
			var baseExpr *xpath.Expr
			for code := 0; code < total; code++ {
				var sb strings.Builder
				c := code
				for k := 0; k <= len(toks); k++ {
					if k < gaps {
						sb.WriteString(wsChoices[c%len(wsChoices)])
						c /= len(wsChoices)
					} else {
						sb.WriteString(sep[k])
					}
					if k < len(toks) {
						sb.WriteString(s[toks[k].Pos:toks[k].End])
					}
				}
				v := sb.String()
				vt, verr := ref.Tokenize(v)
				if verr != nil || !sameToks(vt, toks) {
					w.Count("placements_changing_tokens_skipped", 1)
					continue
				}
				w.Eval()
				if v != s {
					w.NonTrivialCase(s)
				}
				w.RefOutcome("same-tokens")
				got, gerr := xpath.VerifParseTree(v, nil)
				if gerr != nil || got != baseTree {
					w.EngOutcome("differ")
					g := got
					if gerr != nil {
						g = "error: " + gerr.Error()
					}
					parseViolation(w, "G2", v, baseTree, g, gen.Skeleton(baseAST)+"|"+wsSig(v, vt))
					continue
				}
				w.EngOutcome("agree")
				// value agreement on a small document set for a stratum of placements
				if docs != nil && (code%7 == 0 || total <= 81) {
					ve, cerr := xpath.Compile(v)
					if baseExpr == nil {
						baseExpr, _ = xpath.Compile(s)
						if baseExpr != nil {
							for _, t := range docs() {
								for ctx := range t.Nodes {
									baseVals = append(baseVals, eng.Evaluate(baseExpr, t, ctx, false).String())
								}
							}
						}
					}
					if cerr != nil || baseExpr == nil {
						continue // compile errors of valid expressions belong to other properties
					}
					k := 0
					for _, t := range docs() {
						for ctx := range t.Nodes {
							o := eng.Evaluate(ve, t, ctx, false).String()
							w.Count("value_comparisons", 1)
							if o != baseVals[k] {
								ec := &evalCase{Expr: v, T: t, Ctx: ctx, Op: "evaluate", Mode: "seq"}
								w.Violation(ec.toCase("eval", baseVals[k], o, "value", "C10|G2|value|"+gen.Skeleton(baseAST)))
							}
							k++
						}
					}
				}
			}
		},
	}
}

// wsSig names the first gap whose neighbours are glued or separated
// differently from the canonical form (for grouping only).
func wsSig(v string, toks []ref.Tok) string {
	for k := 1; k < len(toks); k++ {
		if toks[k].Pos == toks[k-1].End {
			return "glued:" + toks[k-1].Kind + "~" + toks[k].Kind
		}
	}
	return "spaced"
}

func g2Exprs() []string {
	base := []string{
		"a * b", "a div b", "a mod b", "a and b", "a or b", "a - b", "a -b", "a + b", "a | b", "a = b", "a != b", "a < b", "a <= b", "a > b", "a >= b",
		"2 * 3", "2 div 3", "2 - 1", "- 1", "- a", "a/b", "a//b", "/a", "//a", "/", "a/@b", "a/..", "./a", "../a", "a/.", "a[1]", "a[b]", "a[@b = 'x']", "a[1][2]",
		"child::a", "child::*", "child::node()", "child::text()", "attribute::a", "@a", "@*", "*", "* * *", "* div *", "a * *", "*[1]", "node()", "text()", "comment()",
		"ancestor-or-self::a", "descendant::a/child::b", "count(a)", "count(a) + 1", "concat('a', 'b')", "concat(a, 'x', b)", "not(a)", "true()", "position() = 1", "last() - 1",
		"(a)", "(a)[1]", "(a | b)", "(a | b)[1]", "(a)/b", "(a)//b", "(1 + 2) * 3", "1 + 2 * 3", "-(1)", "'x'", "\"x\"", "' a b '", "1.5", ".5", "5.", "a[.5 < 1]",
		"a = 'b'", "'b' = a", "p:a", "p:*", "p:a/q:b", "@p:a", "child::p:a", "a/b/c", "a[b][c]", "a[b/c]", "a[b and c]", "a[not(b)]", "a[count(b) > 1]",
		"/a/b[1]/@c", "//a[@b]//c", ".//a", "..//a", "a | b | c", "a or b and c", "a and b or c", "a = b = c", "a < b < c", "1 - 2 - 3", "8 div 2 div 2",
		"string-length(a) mod 2", "substring('abc', 1, 2)", "a[last()]", "a[position() < 3]", "a[1 + 1]", "*[self::a or self::b]", "self::node()", "parent::node()/a",
		"following-sibling::*[1]", "preceding::node()", "a/text()", "a//text()", "normalize-space()", "string()", "number(a) + number(b)", "a[string-length() > 1]",
		"-a", "--a", "- - a", "a - -b", "a--b", "1--1", "a*-1", "-a*b", "a[-1]", "div", "mod", "and", "or", "div div div", "and and and", "or or or", "mod mod mod",
		"a/div", "div/a", "@div", "/div", "/div/p", "/and", "/or/a", "/mod", "//div", "//or/and", "/div div /div", "/ div", "div", "/child::div", "(/div)", "count(/div)", "/div[mod]", "a[/and]", "child::or", "or/and", "a[div]", "text", "node", "comment", "text/node", "a/text", "count(text)", "$x", "$x + 1", "$x/a", "a[$x]",
	}
	return base
}

func abbrevSteps() []gen.Step {
	return []gen.Step{gen.Dot(), gen.DotDot(), gen.At("a"), gen.At("*"), gen.Ch("a"), gen.Ch("*"), gen.Ch("text()"), gen.Ch("node()")}
}

func expand(p *gen.Path) *gen.Path {
	q := &gen.Path{Abs: p.Abs}
	for _, s := range p.Steps {
		s.Abbr = ""
		q.Steps = append(q.Steps, s)
	}
	return q
}

// g3Space: abbreviated path and its mechanical expansion give the same node
// sequence (and the same parse tree).
func g3Space(name string, paths []*gen.Path, docs func() []*doc.Tree) *explore.Space {
	return &explore.Space{
		Name: name, Desc: "abbreviated path vs its mechanical expansion: identical parse tree and identical node sequence", Size: len(paths),
		Label: func(i int) string { return gen.Render(paths[i]) },
		Run: func(i int, w *explore.Worker) {
			a := gen.Render(paths[i])
			x := gen.Render(expand(paths[i]))
			w.Sample(a + "  ==  " + x)
			ta, ea := xpath.VerifParseTree(a, nil)
			tx, ex := xpath.VerifParseTree(x, nil)
			w.Eval()
			w.NonTrivialCase(a)
			w.RefOutcome("pair")
			if ea != nil || ex != nil || ta != tx {
				w.EngOutcome("tree-differs")
				parseViolation(w, "G3", a, tx, ta+fmt.Sprint(ea, ex), gen.Skeleton(paths[i]))
			}
			ce, err1 := xpath.Compile(a)
			cx, err2 := xpath.Compile(x)
			if err1 != nil || err2 != nil {
				ec := &evalCase{Expr: a, T: docs()[0], Op: "select", Mode: "seq"}
				w.Violation(ec.toCase("eval", "^nodes:", fmt.Sprint(err1, err2), "compile", "C10|G3|"+gen.Skeleton(paths[i])+"|compile-rejected"))
				return
			}
			for _, t := range docs() {
				env := &ref.Env{T: t}
				for ctx := range t.Nodes {
					w.Eval()
					oa := eng.Select(ce, t, ctx, false)
					ox := eng.Select(cx, t, ctx, false)
					want := ref.Eval(env, ctx, paths[i])
					if len(want.NS) > 0 {
						w.NonTrivialCase(a)
					}
					if oa.String() == ox.String() && eng.MatchesMode(oa, want, "set") {
						w.EngOutcome("agree")
						continue
					}
					w.EngOutcome("sequence-differs")
					ec := &evalCase{Expr: a, AST: paths[i], T: t, Ctx: ctx, Op: "select", Mode: "seq"}
					c := ec.toCase("eval", ox.String(), oa.String(), "abbreviation", "C10|G3|"+gen.Skeleton(paths[i])+"|ctx="+ctxKind(t, ctx))
					c.Note = "expected = sequence of the expansion " + x + "; reference set " + want.String()
					w.Violation(c)
				}
			}
		},
	}
}

func c10Spaces(tier string) []*explore.Space {
	var sp []*explore.Space
	maxOps := 5
	if tier == "thorough" {
		maxOps = 6
	}
	for n := 1; n <= maxOps; n++ {
		sp = append(sp, chainSpace(n, false))
	}
	for n := 1; n <= 3; n++ {
		sp = append(sp, chainSpace(n, true))
	}
	// G4
	sp = append(sp, formChainSpace(1, operandForms), formChainSpace(2, operandForms))
	if tier == "thorough" {
		sp = append(sp, formChainSpace(3, operandForms[:12]))
	}
	// G2
	g2 := g2Exprs()
	// number spellings and operator names next to brackets and operators
	g2 = append(g2, "5. + 2", "5. div 2", "5. - .5", "(5.) + 2", "a[2.]", "a[5. = 5]", ".5 * 5.", "5. | a", "count(a) + 5.", "5.5 mod 2.", "1 div (2)", "a and (b)", "a or (b)", "7 mod (2)", "a div (b) div (c)",
		"(a) and (b)", "(a) div (b)", "a[b and (c)]", "a[1 div (1)]", "not(a) or (b)", "a and (b) or (c)", "* div (2)", "* and (*)", "@a or (@b)", "$x div ($x)", "'a' and ('b')", "a/b mod (2)", "a[1] div (2)", "and and (and)", "div div (div)",
		"a-1", "a-1-1", "a-b", "a.b", "a.1", "a._b", "a_b", "_a", "a-", "a.", "a-1 - 1", "a-1 -1", "a - 1", "a -1", "a.b/c.d", "@a-1", "@a.b", "p:a-1", "p.q:a", "p-1:a.b", "a.b[c-d]", "a-b - c-d", "a.b * c.d", "count(a-1)", "a-1 div a.b", "a.b.c", "a-1[1]", "a1", "a1b2",
		"(a)[1][2]", "(a)[b][c]", "(a)[b][1]/c", "count((a)[b][c])", "d[(a)[b][c]]", "(a | b)[c][d][e]", "$x[a][b]", "count(a)[1][1]")
	forms := stepForms(allTests, true)
	for _, p := range pathsN(forms, 1) {
		g2 = append(g2, gen.Render(p))
	}
	s2 := pathsN(forms, 2)
	k := 64
	if tier == "thorough" {
		k = 8
	}
	for i := 0; i < len(s2); i += k {
		g2 = append(g2, gen.Render(s2[i]))
	}
	nums, strs, nss := numOperands(), strOperands(), nsOperands()
	for _, op := range cmpOps {
		for i, a := range nss {
			g2 = append(g2, gen.Render(gen.B(op, a, nums[i%len(nums)])), gen.Render(gen.B(op, strs[i%len(strs)], a)))
		}
	}
	t2 := func() []*doc.Tree { return uniT(2) }
	sp = append(sp, wsSpace("G2", "every placement of {nothing, space, tab+newline} in the first 9 gaps that keeps the reference token sequence", g2, t2))
	// G3
	ab := abbrevSteps()
	var g3 []*gen.Path
	g3 = append(g3, pathsN(ab, 1)...)
	g3 = append(g3, pathsN(ab, 2)...)
	if tier == "thorough" {
		g3 = append(g3, pathsN(ab, 3)...)
	} else {
		p3 := pathsN(ab, 3)
		for i := 0; i < len(p3); i += 5 {
			g3 = append(g3, p3[i])
		}
	}
	sp = append(sp, g3Space("G3", g3, func() []*doc.Tree { return uniT(3) }))
	return sp
}

func init() {
	explore.Register(&explore.Property{
		ID: "C10", Level: "exploration",
		Rule: "G1: EVERY unparenthesised chain of 1..5 (thorough: 6) binary operators over all 14 operators (13 + '|'), and every chain of <= 3 operators with a unary minus before every subset of operands: the engine's parse tree (hook VerifParseTree) must equal the reference XPath 1.0 parse (fully parenthesised rendering); G2: for every expression of a slice covering every token kind, every placement of {nothing, space, tab+newline} in the first 9 token gaps for which the reference tokenizer still yields the same token sequence must give the same parse tree (and the same values on T(<=2)); G4: every chain of 1..2 (thorough: 3 over 12 forms) operators x every assignment of 21 operand forms (number spellings `1.` `.5`, parenthesised, calls, literals, variables, *, @x, operator names as element names, paths, predicates, node tests, axes, QNames): same oracle as G1; G3: every abbreviated path of <= 3 steps vs its mechanical expansion: same parse tree, same node sequence on T(<=3) from every context; non-trivial = chains with >= 2 operators / placements that change the byte string; distinct = distinct strings",
		Assumptions:    []string{"hand-written reference tokenizer and parser (XPath 1.0 EBNF + section 3.7 disambiguation rules)", "hook VerifParseTree renders what parse() returns"},
		Budget:         budget(180*time.Second, 12*time.Minute),
		MinRefOutcomes: 1,
		Spaces:         c10Spaces,
	})
}

package props

import (
	"fmt"
	"time"

	"verif/mc/doc"
	"verif/mc/explore"
	"verif/mc/gen"
	"verif/mc/ref"
)

// uni11: names and values containing '-' and digits, repeated among siblings
// and cousins (the shapes that make a textual node key ambiguous).
func uni11(n int, vals []string, key string) []*doc.Tree {
	return trees(fmt.Sprintf("U11-%d-%s", n, key), &doc.Universe{MinN: 0, MaxN: n, Names: []string{"a", "a-1", "a1", "b", "a-1-1"},
		Attr: "rule", AttrNames: []string{"a", "a-1"}, Vals: vals})
}

// uniHuge: one parent with n children (n = 255, 256, 257, 300; names alternate
// a/b, or all a), and one parent with 260 children that each have one child
// element, one attribute and one text node.
func uniHuge() []*doc.Tree {
	uniMu.Lock()
	if t, ok := uniCache["Huge"]; ok {
		uniMu.Unlock()
		return t
	}
	uniMu.Unlock()
	var out []*doc.Tree
	for _, n := range []int{255, 256, 257, 300} {
		for _, alt := range []bool{true, false} {
			var kids []doc.Spec
			for i := 0; i < n; i++ {
				name := "a"
				if alt && i%2 == 1 {
					name = "b"
				}
				kids = append(kids, doc.Spec{K: "e", N: name})
			}
			out = append(out, doc.Build([]doc.Spec{{K: "e", N: "b", C: kids}}))
		}
	}
	var kids []doc.Spec
	for i := 0; i < 260; i++ {
		kids = append(kids, doc.Spec{K: "e", N: "a", A: []doc.AttrS{{N: "a", V: "1"}}, C: []doc.Spec{{K: "e", N: []string{"a", "b"}[i%2]}, {K: "t", V: "1"}}})
	}
	out = append(out, doc.Build([]doc.Spec{{K: "e", N: "b", C: kids}}))
	// two parallel branches, 140 levels deep, same names and sibling positions all the way down
	// (a node key must take the whole path to the root into account)
	chain := func() doc.Spec {
		s := doc.Spec{K: "e", N: "b"}
		for i := 0; i < 140; i++ {
			s = doc.Spec{K: "e", N: "a", C: []doc.Spec{s}}
		}
		return s
	}
	out = append(out, doc.Build([]doc.Spec{{K: "e", N: "b", C: []doc.Spec{chain(), chain()}}}))
	uniMu.Lock()
	uniCache["Huge"] = out
	uniMu.Unlock()
	return out
}

// addrPath is the absolute child/attribute path with [k] positions that
// addresses exactly node n.
func addrPath(t *doc.Tree, n int) *gen.Path {
	var chain []int
	for x := n; x > 0; x = t.Nodes[x].Parent {
		chain = append([]int{x}, chain...)
	}
	p := &gen.Path{Abs: true}
	for _, x := range chain {
		nd := &t.Nodes[x]
		if nd.Kind == doc.Attr {
			q := nd.Local
			if nd.Prefix != "" {
				q = nd.Prefix + ":" + nd.Local
			}
			p.Steps = append(p.Steps, gen.At(q))
			continue
		}
		// index among the siblings selected by the same test
		k := 0
		for _, sib := range t.Nodes[nd.Parent].Children {
			sn := &t.Nodes[sib]
			if sn.Kind == nd.Kind && sn.Local == nd.Local && sn.Prefix == nd.Prefix {
				k++
			}
			if sib == x {
				break
			}
		}
		var test string
		switch nd.Kind {
		case doc.Elem:
			test = nd.Local
			if nd.Prefix != "" {
				test = nd.Prefix + ":" + nd.Local
			}
		case doc.Text:
			test = "text()"
		case doc.Comment:
			test = "comment()"
		}
		p.Steps = append(p.Steps, gen.Ch(test, gen.N(float64(k))))
	}
	return p
}

// pairSpace: for every document, every ordered pair of nodes (x, y):
// addr(x) | addr(y) must yield exactly {x, y}.
func pairSpace(name string, docs func() []*doc.Tree) *explore.Space {
	cfg := &evalCfg{Prop: "C11", Ops: []string{"select"}, Mode: "bag"}
	cfgEv := &evalCfg{Prop: "C11", Ops: []string{"evaluate"}, Mode: "bag"}
	return &explore.Space{
		Name: name, Desc: "addr(x) | addr(y) for every ordered node pair of every document", Size: len(docs()),
		Label: func(i int) string { return docs()[i].String() },
		Run: func(i int, w *explore.Worker) {
			t := docs()[i]
			one := []*doc.Tree{t}
			addrs := make([]*gen.Path, t.Len())
			for n := range t.Nodes {
				addrs[n] = addrPath(t, n)
			}
			for x := range t.Nodes {
				for y := range t.Nodes {
					u := gen.B("|", addrs[x], addrs[y])
					c := cfg
					if (x+y)%2 == 1 {
						c = cfgEv
					}
					runExprOnCtxs(c, w, gen.Render(u), u, nil, one, []int{0, t.Len() - 1})
				}
			}
		},
	}
}

func c11Spaces(tier string) []*explore.Space {
	tests := []string{"a", "*", "node()", "text()"}
	forms := stepForms(tests, true)
	s1 := pathsN(forms, 1)
	var u2 []gen.Expr
	for _, a := range s1 {
		for _, b := range s1 {
			u2 = append(u2, gen.B("|", a, b))
		}
	}
	// two-step operands with overlap / containment
	two := []*gen.Path{relPath(gen.Ch("*"), gen.Ch("*")), relPath(gen.Ch("a"), gen.Ch("node()")), relPath(gen.DotDot(), gen.Ch("*")), gen.AbsP(gen.DSlash(), gen.Ch("a")),
		gen.AbsP(gen.DSlash(), gen.Ch("*"), gen.At("*")), relPath(gen.St("ancestor", "*"), gen.Ch("*")), relPath(gen.St("descendant", "node()"), gen.DotDot()),
		relPath(gen.St("following", "node()"), gen.St("preceding", "node()")), gen.AbsP(gen.DSlash(), gen.Ch("text()")), relPath(gen.Dot(), gen.DSlash(), gen.Dot())}
	for _, a := range two {
		for _, b := range two {
			u2 = append(u2, gen.B("|", a, b))
		}
		for _, b := range s1 {
			u2 = append(u2, gen.B("|", a, b), gen.B("|", b, a))
		}
	}
	// U3: the sequence form p/(s1, s2[, s3])
	var u3 []gen.Expr
	seqForms := stepForms([]string{"a", "node()"}, true)
	heads := [][]gen.Step{{gen.Dot()}, {gen.Ch("*")}, {gen.DotDot()}, {gen.St("descendant-or-self", "node()")}}
	for _, h := range heads {
		for _, a := range seqForms {
			for _, b := range seqForms {
				st := append(append([]gen.Step{}, h...), gen.Step{Seq: []gen.Step{a, b}})
				u3 = append(u3, &gen.Path{Steps: st})
			}
		}
	}
	small := []gen.Step{gen.Ch("a"), gen.Ch("*"), gen.At("*"), gen.Dot(), gen.DotDot(), gen.Ch("text()"), gen.St("following-sibling", "node()"), gen.St("ancestor", "*")}
	for _, a := range small {
		for _, b := range small {
			for _, c := range small {
				u3 = append(u3, &gen.Path{Steps: []gen.Step{gen.Ch("*"), {Seq: []gen.Step{a, b, c}}}})
			}
		}
	}
	// U4: A|B|C and (A|B)[P]
	var u4 []gen.Expr
	ops := []*gen.Path{relPath(gen.Ch("a")), relPath(gen.Ch("*")), relPath(gen.At("*")), relPath(gen.Dot()), relPath(gen.DotDot()), gen.AbsP(gen.DSlash(), gen.Ch("a")),
		relPath(gen.St("ancestor-or-self", "node()")), relPath(gen.St("following", "node()")), relPath(gen.St("preceding-sibling", "node()")), relPath(gen.Ch("text()"))}
	for _, a := range ops {
		for _, b := range ops {
			for _, c := range ops {
				u4 = append(u4, gen.B("|", gen.B("|", a, b), c))
			}
			for _, p := range smallAtoms() {
				u4 = append(u4, &gen.Filter{Primary: &gen.Group{E: gen.B("|", a, b)}, Preds: []gen.Expr{p}})
			}
		}
	}
	// a node-set returning FUNCTION as operand: reverse(A) | B, B | reverse(A), (reverse(A)) | B
	for _, a := range ops[:7] {
		for _, b := range ops[:7] {
			u4 = append(u4, gen.B("|", gen.F("reverse", a), b), gen.B("|", b, gen.F("reverse", a)), gen.B("|", &gen.Group{E: gen.F("reverse", a)}, b), gen.B("|", gen.F("reverse", a), gen.F("reverse", b)))
		}
	}
	// U5: a union re-evaluated per candidate: host[A | B], host[(A | B) = 'v'],
	// host[count(A | B) > n], host/(A | B) after a multi-node step
	var u5 []gen.Expr
	inner := []*gen.Path{relPath(gen.Ch("a")), relPath(gen.Ch("*")), relPath(gen.At("*")), relPath(gen.DotDot()), relPath(gen.DotDot(), gen.Ch("*")), relPath(gen.DotDot(), gen.At("*")),
		relPath(gen.St("following-sibling", "*")), relPath(gen.St("preceding-sibling", "node()")), relPath(gen.St("ancestor", "*")), relPath(gen.Ch("text()")), gen.AbsP(gen.Ch("*"))}
	for _, h := range []gen.Step{gen.Ch("*"), gen.St("descendant-or-self", "node()"), gen.St("descendant", "*")} {
		for _, a := range inner {
			for _, b := range inner {
				u := gen.B("|", a, b)
				u5 = append(u5, relPath(withPred(h, u)), relPath(withPred(h, gen.B("=", &gen.Group{E: u}, gen.S("1")))), relPath(withPred(h, gen.B(">", gen.F("count", u), gen.N(1)))),
					&gen.Path{Steps: []gen.Step{h, {Seq: []gen.Step{a.Steps[len(a.Steps)-1], b.Steps[len(b.Steps)-1]}}}})
			}
		}
	}
	// U6: an operand that is a multi-step path ending in a positional predicate
	// (built as a merge query) next to a relative operand, both orders
	var u6 []gen.Expr
	posOps := []*gen.Path{relPath(gen.Ch("*"), gen.Ch("*", gen.N(1))), relPath(gen.Ch("*"), gen.Ch("node()", gen.F("last"))), relPath(gen.Ch("*"), gen.Ch("*", gen.B("=", gen.F("position"), gen.N(1)))),
		relPath(gen.Ch("*", gen.N(1)), gen.Ch("*", gen.N(1))), relPath(gen.Ch("a"), gen.Ch("node()", gen.N(2))), relPath(gen.St("descendant", "*"), gen.Ch("*", gen.N(1))),
		relPath(gen.Ch("*"), gen.Step{Seq: []gen.Step{gen.Ch("*", gen.N(1)), gen.Ch("text()")}}), relPath(gen.DotDot(), gen.Ch("*", gen.F("last")))}
	relOps := []*gen.Path{relPath(gen.Ch("*")), relPath(gen.Dot()), relPath(gen.DotDot()), relPath(gen.At("*")), relPath(gen.Ch("text()")), relPath(gen.Ch("a")), relPath(gen.Ch("node()")),
		relPath(gen.St("following-sibling", "*")), relPath(gen.Ch("*"), gen.Ch("*"))}
	for _, a := range posOps {
		for _, b := range relOps {
			u6 = append(u6, gen.B("|", a, b), gen.B("|", b, a), gen.B("|", gen.B("|", a, b), relPath(gen.Dot())))
		}
		for _, b := range posOps {
			u6 = append(u6, gen.B("|", a, b))
		}
	}
	bag := &evalCfg{Prop: "C11", Ops: []string{"select"}, Mode: "bag"}
	n := 3
	if tier == "thorough" {
		n = 4
	}
	t3 := func() []*doc.Tree { return uniT(3) }
	sp := []*explore.Space{
		pairSpace(fmt.Sprintf("U1xSame%d", n), func() []*doc.Tree { return uni11(n, []string{"v"}, "same") }),
		pairSpace(fmt.Sprintf("U1xMix%d", n), func() []*doc.Tree { return uni11(n, []string{"v-1", "v", "1", "", "v-1-1"}, "mix") }),
		exprSpace("U2xT3", "A | B for all pairs of 1-step paths (+ two-step operands) x T(<=3)", u2, t3, bag),
		exprSpace("U3xT3", "sequence form p/(s1, s2[, s3]) x T(<=3)", u3, t3, bag),
		exprSpace("U4xT3", "A | B | C and (A | B)[P] x T(<=3)", u4, t3, bag),
		exprSpace("U5xT3", "a union re-evaluated per candidate: host[A | B], host[(A | B) = 'v'], host[count(A | B) > 1], host/(s1, s2) x T(<=3)", u5, t3, bag),
		exprSpace("U6xT4", "operands ending in a positional predicate (merge queries) united with relative operands, both orders x T(<=4)", u6, func() []*doc.Tree { return uniT(4) }, bag),
		exprSpace("U2/3xBig", "fixed stratum (every 3rd) of A | B pairs x documents with 5+ children / depth 4..6 (operands with 4+ nodes)", stratum(u2, 3), func() []*doc.Tree {
			return append(append([]*doc.Tree{}, stridedTrees(uniWide(5), 27)...), stridedTrees(uniDeep(6), 9)...)
		}, bag),
	}
	// U7: sibling positions beyond one byte (a node key built from positions must
	// not wrap): a parent with 255..300 children; contexts: root, parent, first child
	var u7 []gen.Expr
	kid := func(test string, k float64) gen.Step { return gen.Ch(test, gen.N(k)) }
	for _, e := range []gen.Expr{
		gen.B("|", relPath(gen.Ch("*")), relPath(gen.Ch("*"))), gen.B("|", relPath(gen.Ch("a")), relPath(gen.Ch("b"))),
		gen.B("|", relPath(kid("*", 1)), relPath(kid("*", 257))), gen.B("|", relPath(kid("*", 257)), relPath(kid("*", 1))), gen.B("|", relPath(kid("*", 2)), relPath(kid("*", 258))),
		gen.B("|", relPath(kid("a", 1)), relPath(kid("a", 129))), gen.B("|", relPath(kid("*", 44)), relPath(kid("*", 300))),
		gen.B("|", gen.AbsP(gen.DSlash(), gen.Ch("a")), gen.AbsP(gen.DSlash(), gen.Ch("b"))), gen.B("|", gen.AbsP(gen.Ch("*"), gen.Ch("*")), gen.AbsP(gen.Ch("*"), gen.Ch("*"))),
		gen.B("|", relPath(gen.Ch("*", gen.B("<", gen.F("position"), gen.N(3)))), relPath(gen.Ch("*", gen.B(">", gen.F("position"), gen.N(255))))),
		gen.B("|", relPath(gen.Ch("*"), gen.Ch("*")), relPath(gen.Ch("*"), gen.Ch("*"))), gen.B("|", relPath(gen.Ch("*"), gen.At("*")), relPath(gen.Ch("*"), gen.At("*"))),
		gen.B("|", relPath(gen.Ch("*"), gen.Ch("text()")), relPath(gen.Ch("*"), gen.Ch("node()"))),
		&gen.Path{Steps: []gen.Step{gen.Ch("*"), {Seq: []gen.Step{gen.Ch("a"), gen.Ch("b")}}}},
		gen.B("|", gen.AbsP(gen.DSlash(), gen.Ch("b")), gen.AbsP(gen.DSlash(), gen.Ch("nosuch"))), gen.B("|", gen.AbsP(gen.DSlash(), gen.Ch("b")), gen.AbsP(gen.DSlash(), gen.Ch("b"))),
		gen.B("|", relPath(gen.St("descendant", "b")), relPath(gen.St("descendant", "b"), gen.DotDot())),
	} {
		u7 = append(u7, e)
	}
	bagTop := &evalCfg{Prop: "C11", Ops: []string{"select", "evaluate"}, Mode: "bag", Skip: func(t *doc.Tree, ctx int, want ref.Value) bool { return ctx > 2 }}
	sp = append(sp, exprSpace("U7xHuge", "unions over a parent with 255..300 children (sibling positions beyond one byte), and 260 parents with one child / attribute / text each", u7, uniHuge, bagTop))
	if tier == "thorough" {
		sp = append(sp, exprSpace("U2x11", "A | B pairs x the '-'/digit name universe (<=3)", u2, func() []*doc.Tree { return uni11(3, []string{"v-1", "v", "1", ""}, "mix4") }, bag))
	}
	return sp
}

func init() {
	explore.Register(&explore.Property{
		ID: "C11", Level: "exploration",
		Rule: "U1 enumerates node PAIRS: for every document of a universe whose element/attribute names and values contain '-' and digits and repeat among siblings and cousins, and every ordered pair of nodes (x,y), the union of their absolute addresses must yield exactly {x,y} (1 node iff x=y); U2-U4 enumerate A|B over all pairs of 1-step paths, the sequence form p/(s1,s2[,s3]), A|B|C and (A|B)[P] on T(<=3) from every context; U5/U6: unions re-evaluated per candidate and merge-query operands; U7: unions over a parent with 255..300 children (sibling positions beyond one byte) and over 260 one-child parents, from the root / parent / first child; compared as a multiset (every node exactly once, order free) with the reference union; non-trivial = non-empty reference union; distinct = distinct expressions",
		Assumptions:    []string{"hand-written reference evaluator", "lawful NodeNavigator", "bounded trees"},
		Budget:         budget(200*time.Second, 25*time.Minute),
		MinRefOutcomes: 2,
		Spaces:         c11Spaces,
	})
}

package props

import (
	"encoding/json"
	"fmt"
	"strings"
	"time"

	"github.com/antchfx/xpath"

	"verif/mc/doc"
	"verif/mc/eng"
	"verif/mc/explore"
	"verif/mc/gen"
	"verif/mc/ref"
	"verif/mc/report"
)

// ---- explorer B: operation histories on one compiled expression ----------

// hop is one operation of a history.
type hop struct {
	Op      string `json:"op"`      // select | evaluate
	Doc     int    `json:"doc"`     // index into the history documents
	Ctx     int    `json:"ctx"`     // context node
	Consume int    `json:"consume"` // results consumed: 0, 1, -1 = all
}

func (h hop) String() string {
	c := "all"
	if h.Consume >= 0 {
		c = fmt.Sprint(h.Consume)
	}
	return fmt.Sprintf("%s(D%d,#%d)/%s", h.Op, h.Doc+1, h.Ctx, c)
}

var histDocs = []*doc.Tree{
	doc.Build([]doc.Spec{{K: "e", N: "a", A: []doc.AttrS{{N: "x", V: "1"}, {N: "y", V: "2"}}, C: []doc.Spec{
		{K: "e", N: "b", C: []doc.Spec{{K: "t", V: "1"}}}, {K: "c", V: "c"},
		{K: "e", N: "a", A: []doc.AttrS{{N: "x", V: "3"}}, C: []doc.Spec{{K: "e", N: "b"}, {K: "t", V: "2"}}}, {K: "e", N: "b"}}}}),
	// same names at the same positions as the first document, but different
	// sibling counts and values (so that anything memoised per position collides)
	doc.Build([]doc.Spec{{K: "e", N: "a", A: []doc.AttrS{{N: "x", V: "2"}}, C: []doc.Spec{
		{K: "e", N: "b", C: []doc.Spec{{K: "t", V: "x"}, {K: "e", N: "b"}}},
		{K: "e", N: "a", A: []doc.AttrS{{N: "x", V: "1"}}, C: []doc.Spec{{K: "e", N: "b"}, {K: "e", N: "b"}, {K: "e", N: "b", C: []doc.Spec{{K: "t", V: "1"}}}}}}}}),
}

// histCtxs: root, an inner element, a leaf, an attribute of each document.
func histCtxs(t *doc.Tree) []int {
	var inner, leaf, attr = -1, -1, -1
	for i := range t.Nodes {
		n := &t.Nodes[i]
		switch {
		case n.Kind == doc.Attr && attr < 0:
			attr = i
		case n.Kind == doc.Elem && len(n.Children) > 0 && n.Parent > 0 && inner < 0:
			inner = i
		case n.Kind != doc.Attr && n.Kind != doc.Root && len(n.Children) == 0:
			leaf = i
		}
	}
	return []int{0, inner, leaf, attr}
}

func histOps() []hop {
	var out []hop
	for d, t := range histDocs {
		for _, c := range histCtxs(t) {
			for _, k := range []int{0, 1, -1} {
				out = append(out, hop{"select", d, c, k}, hop{"evaluate", d, c, k})
			}
		}
	}
	return out
}

func histProbes() []hop {
	var out []hop
	for d, t := range histDocs {
		for _, c := range histCtxs(t) {
			out = append(out, hop{"select", d, c, -1}, hop{"evaluate", d, c, -1})
		}
	}
	return out
}

// apply runs one operation on e and returns what it observed.
func (h hop) apply(e *xpath.Expr) (o eng.Outcome) {
	t := histDocs[h.Doc]
	defer func() {
		if r := recover(); r != nil {
			o = eng.Outcome{Kind: "panic", Msg: fmt.Sprint(r)}
		}
	}()
	b := &doc.Budget{Limit: eng.DefaultBudget}
	var it *xpath.NodeIterator
	if h.Op == "select" {
		it = e.Select(doc.NewNav(t, h.Ctx, b))
	} else {
		v := e.Evaluate(doc.NewNav(t, h.Ctx, b))
		var ok bool
		if it, ok = v.(*xpath.NodeIterator); !ok {
			return eng.FromValue(v, t)
		}
	}
	out := []int{}
	for (h.Consume < 0 || len(out) < h.Consume) && it.MoveNext() {
		out = append(out, doc.At(it.Current()))
		if len(out) > 1000 {
			return eng.Outcome{Kind: "hang"}
		}
	}
	return eng.Outcome{Kind: "nodes", Nodes: out}
}

type histResult struct {
	ok          bool
	expected    string
	got         string
	states      map[string]bool
	transitions int64
	dumpDiff    string
}

// runHistory replays history h on a fresh compile, then applies the probe; the
// probe's observation must equal the probe on a fresh compile.
func runHistory(s string, h []hop, probe hop, states map[string]bool) (res histResult) {
	res.ok = true
	settleGlobals()
	fresh, err := xpath.Compile(s)
	if err != nil {
		res.ok, res.got = false, "compile: "+err.Error()
		return
	}
	want := probe.apply(fresh)
	e, _ := xpath.Compile(s)
	if states != nil {
		states[xpath.VerifDumpState(e)] = true
	}
	for _, op := range h {
		op.apply(e)
		res.transitions++
		if states != nil {
			states[xpath.VerifDumpState(e)] = true
		}
	}
	dumpBefore := xpath.VerifDumpState(e)
	got := probe.apply(e)
	res.transitions++
	if got.String() != want.String() {
		res.ok, res.expected, res.got = false, want.String(), got.String()
		f2, _ := xpath.Compile(s)
		if d := xpath.VerifDumpState(f2); d != dumpBefore {
			res.dumpDiff = "state before probe: " + dumpBefore + "  fresh: " + d
		}
	}
	return
}

var settleExprs []*xpath.Expr

// settleGlobals brings the package's process-global scratch state (the pooled
// string builders) into its quiescent state before a history starts, so that
// whatever a history observes is caused by that history alone: a few plain,
// successful evaluations of every pooled function.
func settleGlobals() {
	if settleExprs == nil {
		for _, s := range []string{"concat('', '')", "normalize-space('')", "string-join(/nosuch, '')"} {
			if e, err := xpath.Compile(s); err == nil {
				settleExprs = append(settleExprs, e)
			}
		}
	}
	for k := 0; k < 3; k++ {
		for _, e := range settleExprs {
			func() {
				defer func() { recover() }()
				e.Evaluate(doc.NewNav(emptyDoc, 0, nil))
			}()
		}
	}
}

func histSig(s string, h []hop, probe hop) string {
	var ops []string
	for _, o := range h {
		ops = append(ops, o.Op)
	}
	sk := s
	if ast, err := ref.Parse(s); err == nil {
		sk = gen.Skeleton(ast)
	}
	return "C04|" + sk + "|after:" + strings.Join(ops, ",") + "|probe:" + probe.Op
}

func c04Exprs(tier string) []string {
	out := []string{
		// every axis as a top-level step and inside a predicate
	}
	for _, ax := range gen.Axes {
		out = append(out, ax+"::*", ax+"::node()", "//*["+ax+"::a]", "*["+ax+"::node()]", "count("+ax+"::*)", ax+"::a = ''", ax+"::* = 'x'", "string("+ax+"::*)")
	}
	out = append(out,
		"//a", "//a/b", ".//b", "descendant::a/descendant::b", "descendant::a//b", "//a//b", "//*/..", "a/b/..", "*/*", "*/@*", "//@x",
		"a[b]", "a[1]", "*[2]", "*[last()]", "a/b[1]", "*/*[1]", "//b[1]", "//*[position() = last()]", "a[b][1]", "*[1][b]", "(//a)[2]", "(//b)[last()]", "(a | b)[1]",
		// evaluations that abort half-way on SOME context nodes (a deliberate type error after part of the result was built)
		"concat(name(), '-', string(sum(string(@x))))", "concat('L', substring('abc', string(@x)))", "normalize-space(concat(., string(sum(string(.)))))", "string-join(*, string(sum(string(@a))))",
		"(//a)[b][1]", "(//*)[@x][last()]", "(//*)[1][b]", "count((//*)[@x][2])", "//*[(*)[@x][1]]",
		"a | b", "//a | //b", "a | . | ..", "*/(a, b)", "*/(a, b)/..", "a and b", "a or b", "//a and //nosuch", "a = b", "//a = //b", "a > 1", "//@x > 1", "//b = '1'", "1 = //@x",
		"a != b", "* = *", "count(*) + count(//a)", "sum(//@x) * 2", "//@x + 1", "-a", "a + b", "a mod 2",
		"count(//a)", "sum(//@x)", "string(//b)", "name(*)", "local-name(//a)", "concat(a, b)", "concat(//b, '-', //@x)", "string-join(//b, ',')", "string-join(//@x, //b)",
		"reverse(*)", "reverse(//a)", "normalize-space(//b)", "substring(//b, 1)", "substring-before(//@x, '1')", "substring-after(a, b)", "string-length(//b)",
		"contains(//b, '1')", "starts-with(//@x, '1')", "ends-with(a, b)", "translate(//b, '1', '2')", "lower-case(//b)", "not(a)", "not(//nosuch)", "boolean(//a)",
		"number(//@x)", "floor(//@x)", "ceiling(a)", "round(//@x)", "matches(//b, '1')", "replace(//b, '1', 'z')",
		"count(reverse(*))", "string(count(*))", "concat(string(a), name(b))", "not(not(a))", "count(//a[b])", "count(//a[count(b) > 0])", "sum(*/@x)", "boolean(count(a) = 1)",
		"//a[count(*) = 2]", "//a[b = '1']", "//*[. = '1']", "//*[@x = 1]", "//*[@x > 1][1]", "//a[not(b)]", "//*[name() = 'b']", "//*[string-length(.) > 0]",
		"//a[b and @x]", "//a[b or @y]", "//*[following-sibling::b]", "//*[preceding::a][ancestor::a]", "//*[a | b]", "//*[*/(a, b)]", "//*[contains(., '1')]",
		"position()", "last()", "//*[position()]", "*[last() - 1]", "//b[last()]", "//b[position() < last()]", "//*[last()][1]", "*/*[last()]", "//b[position() = last() - 1]", "count(//b[last()])", "//*[b[last()]]", ".", "..", "/", "@*", "text()", "comment()", "node()", "self::a", "'lit'", "1 + 1", "true()",
	)
	if tier == "core" {
		return out
	}
	out = out[:0]
	// every node-set shape wrapped so that it is evaluated ON THE SHARED TREE
	// (comparisons, arithmetic and boolean operators iterate their operands in
	// place, stopping early on a match)
	nodesets := []string{"*", "//a", "//b", ".//b", "descendant::a/descendant::b", "descendant::a//b", "//a//b", "//*/..", "*/*", "//@x", "a[b]", "*[2]", "*[last()]",
		"//b[1]", "(//a)[2]", "a | b", "//a | //b", "*/(a, b)", "//*[b]", "//*[@x > 1]", "ancestor::*", "ancestor-or-self::*", "following::*", "preceding::*",
		"following-sibling::*", "preceding-sibling::*", "descendant-or-self::*", "parent::*", "self::*", "@*", "text()", "//text()", "//*[ancestor::a]", "//*[following::b][1]",
		"reverse(//a)", "//a/descendant::*", "//*[last()]", "*/*[1]", "//*[position() < 3]"}
	for _, p := range nodesets {
		out = append(out, p+" = '1'", p+" = 'zz'", p+" != '1'", p+" > 0", "1 < "+p, p+" + 1", "-("+p+")", p+" and "+p, p+" or false()", "boolean("+p+")", "not("+p+")",
			p+" = "+p, p+" = //b", "//@x = "+p, "string("+p+") = '1'", "count("+p+") = 1", "("+p+")[1] = '1'", "*["+p+" = '1']", "sum("+p+") > 1")
	}
	// every function over an argument that carries its own iteration state
	for _, f := range []string{"count", "sum", "string", "string-length", "normalize-space", "name", "local-name", "number", "boolean", "not", "lower-case", "floor", "reverse"} {
		for _, a := range []string{"(//b)[2]", "*[@x][1]", "(//b | //a)[last()]", "//*[position() > 1][1]", "*/*[1]"} {
			out = append(out, f+"("+a+")", "//*["+f+"("+a+")]")
		}
	}
	for _, a := range []string{"(//b)[2]", "*[@x][1]", "(//b | //a)[last()]"} {
		out = append(out, "concat("+a+", 'x')", "contains("+a+", '1')", "starts-with("+a+", '1')", "substring("+a+", 1)", "substring-before("+a+", '1')", "translate("+a+", '1', '2')",
			"string-join("+a+", ',')", "matches("+a+", '1')", "replace("+a+", '(1)', '$1x')", "ends-with("+a+", '1')", "substring-after("+a+", '1')")
	}
	if tier != "thorough" {
		return out
	}
	// thorough: add two-step combinations of all axes
	for _, a1 := range gen.Axes {
		for _, a2 := range gen.Axes {
			out = append(out, a1+"::*/"+a2+"::node()", "*["+a1+"::*/"+a2+"::a]")
		}
	}
	return out
}

// histSpace explores depth-2 histories. part "core": one expression per
// query-node type / closure over the FULL operation alphabet (2 documents x 4
// context kinds); part "wrapped": every node-set shape under 19 operator
// wrappers and every function over stateful arguments, over the operations of
// both documents from the root and an inner element.
func histSpace(tier, part string) *explore.Space {
	exprs := c04Exprs("core")
	ops := histOps()
	if part == "wrapped" {
		exprs = c04Exprs(tier)
		var red []hop
		for _, o := range ops {
			cx := histCtxs(histDocs[o.Doc])
			if o.Ctx == cx[0] || o.Ctx == cx[1] {
				red = append(red, o)
			}
		}
		ops = red
	}
	probes := histProbes()
	depth := 2
	return &explore.Space{
		Name: fmt.Sprintf("Hist-%s-depth%d", part, depth), Desc: fmt.Sprintf("every history of <= %d operations out of %d (Select/Evaluate x 2 documents x 4 context kinds x consume 0/1/all) followed by each of %d probes, per expression", depth, len(ops), len(probes)),
		Size:  len(exprs),
		Label: func(i int) string { return exprs[i] },
		Run: func(i int, w *explore.Worker) {
			s := exprs[i]
			if _, err := xpath.Compile(s); err != nil {
				w.InternalError("C04 expression does not compile: " + s + ": " + err.Error())
				return
			}
			w.Sample(s)
			states := map[string]bool{}
			check := func(h []hop) {
				for pi, p := range probes {
					var st map[string]bool
					if pi == 0 {
						st = states
					}
					w.Eval()
					r := runHistory(s, h, p, st)
					w.Count("transitions", r.transitions)
					w.Count("traces_validated_against_impl", 1)
					if len(h) > 0 {
						w.NonTrivialCase(s)
					}
					if r.ok {
						w.EngOutcome("agree")
						continue
					}
					w.EngOutcome("history-dependent")
					hb, _ := json.Marshal(h)
					pb, _ := json.Marshal(p)
					var hs []string
					for _, o := range h {
						hs = append(hs, o.String())
					}
					w.Violation(&report.Case{Kind: "history", Expr: s, TreeS: "D1=" + histDocs[0].String() + " D2=" + histDocs[1].String(),
						Op: "history [" + strings.Join(hs, " ; ") + "] then " + p.String(), Expected: r.expected, Got: r.got, Class: "history",
						Extra: map[string]interface{}{"history": string(hb), "probe": string(pb)}, Note: r.dumpDiff,
						Sig: histSig(s, h, p), Weight: len(h)*100 + len(s)})
				}
			}
			check(nil)
			for _, a := range ops {
				check([]hop{a})
			}
			if depth >= 2 {
				for _, a := range ops {
					for _, b := range ops {
						check([]hop{a, b})
					}
				}
			}
			// repetition histories: the same operation 3..6 times ("warm-up"
			// effects: something that changes after the n-th use)
			for _, a := range ops {
				for k := 3; k <= 6; k++ {
					h := make([]hop, k)
					for i := range h {
						h[i] = a
					}
					check(h)
				}
			}
			w.Count("states", int64(len(states)))
			w.RefOutcome("n/a")
		},
	}
}

// deep histories (depth 3) on a reduced operation alphabet
func histSpace3(tier string) *explore.Space {
	exprs := append(c04Exprs("core"), c04Exprs("quick")...)
	var ops []hop
	for _, o := range histOps() {
		if o.Doc == 0 && (o.Ctx == 0 || o.Ctx == histCtxs(histDocs[0])[1]) || o.Doc == 1 && o.Ctx == 0 && o.Consume != 0 {
			ops = append(ops, o)
		}
	}
	probes := histProbes()
	return &explore.Space{
		Name: "Hist-depth3", Desc: fmt.Sprintf("every history of exactly 3 operations over a reduced alphabet of %d operations, followed by each of %d probes", len(ops), len(probes)),
		Size:  len(exprs),
		Label: func(i int) string { return exprs[i] },
		Run: func(i int, w *explore.Worker) {
			s := exprs[i]
			w.Sample(s)
			for _, a := range ops {
				for _, b := range ops {
					for _, c := range ops {
						h := []hop{a, b, c}
						for _, p := range probes {
							w.Eval()
							w.NonTrivialCase(s)
							r := runHistory(s, h, p, nil)
							w.Count("transitions", r.transitions)
							w.Count("traces_validated_against_impl", 1)
							if r.ok {
								w.EngOutcome("agree")
								continue
							}
							w.EngOutcome("history-dependent")
							hb, _ := json.Marshal(h)
							pb, _ := json.Marshal(p)
							w.Violation(&report.Case{Kind: "history", Expr: s, Op: fmt.Sprint(h, " then ", p), Expected: r.expected, Got: r.got, Class: "history",
								Extra: map[string]interface{}{"history": string(hb), "probe": string(pb)}, Sig: histSig(s, h, p), Weight: 300 + len(s)})
						}
					}
				}
			}
			w.RefOutcome("n/a")
		},
	}
}

// ---- histories across documents that bind one prefix to different URIs ----

var nsHistDocs = []*doc.Tree{
	doc.Build([]doc.Spec{{K: "e", N: "r", C: []doc.Spec{{K: "e", N: "p:b", U: "u1", A: []doc.AttrS{{N: "p:x", U: "u1", V: "1"}}, C: []doc.Spec{{K: "t", V: "1"}}}, {K: "e", N: "q:b", U: "u2"}, {K: "e", N: "b"}}}}),
	doc.Build([]doc.Spec{{K: "e", N: "r", C: []doc.Spec{{K: "e", N: "p:b", U: "u2", A: []doc.AttrS{{N: "p:x", U: "u2", V: "2"}}, C: []doc.Spec{{K: "t", V: "2"}}}, {K: "e", N: "q:b", U: "u1"}, {K: "e", N: "p:b", U: "u1"}}}}),
}

type nsHop struct {
	Op      string
	Doc     int
	Ctx     int
	Consume int
	Plain   bool // a navigator implementation WITHOUT the optional NamespaceURL method
}

func (h nsHop) nav(t *doc.Tree) xpath.NodeNavigator {
	if h.Plain {
		return doc.NewNav(t, h.Ctx, nil)
	}
	return doc.NewNavNS(t, h.Ctx, nil)
}

func (h nsHop) apply(e *xpath.Expr) eng.Outcome {
	t := nsHistDocs[h.Doc]
	var o eng.Outcome
	func() {
		defer func() {
			if r := recover(); r != nil {
				o = eng.Outcome{Kind: "panic", Msg: fmt.Sprint(r)}
			}
		}()
		var it *xpath.NodeIterator
		if h.Op == "select" {
			it = e.Select(h.nav(t))
		} else {
			v := e.Evaluate(h.nav(t))
			var ok bool
			if it, ok = v.(*xpath.NodeIterator); !ok {
				o = eng.FromValue(v, t)
				return
			}
		}
		out := []int{}
		for (h.Consume < 0 || len(out) < h.Consume) && it.MoveNext() {
			out = append(out, doc.At(it.Current()))
		}
		o = eng.Outcome{Kind: "nodes", Nodes: out}
	}()
	return o
}

// nsHistSpace: the navigator exposes namespace URIs; expressions use prefixed
// name tests, compiled without and with a namespace map; every history of
// <= 2 operations over both documents, then every probe.
func nsHistSpace() *explore.Space {
	type item struct {
		s      string
		withNS bool
		ns     map[string]string
	}
	var items []item
	for _, s := range []string{"//p:b", "p:b", "*/p:b", "//p:b/@p:x", "count(//p:b)", "string(//p:b)", "//*[p:b]", "//p:b[1]", "//q:b | //p:b", "//p:b = '1'", "name(//p:b)", "//@p:x", "descendant::p:b", "//b/preceding-sibling::p:b",
		"namespace-uri(//p:b)", "//*[namespace-uri() = 'u1']", "namespace-uri()", "//*[namespace-uri(*) = 'u2']", "concat(name(*), '|', namespace-uri(*))"} {
		items = append(items, item{s, false, nil}, item{s, true, map[string]string{"p": "u1", "q": "u2"}}, item{s, true, map[string]string{"p": "u2", "q": "u2"}})
	}
	var ops []nsHop
	for d := range nsHistDocs {
		for _, c := range []int{0, 1} {
			for _, k := range []int{0, 1, -1} {
				ops = append(ops, nsHop{"select", d, c, k, false}, nsHop{"evaluate", d, c, k, false})
			}
		}
	}
	// the same compiled expression handed to a second navigator implementation
	for d := range nsHistDocs {
		for _, c := range []int{0, 1} {
			ops = append(ops, nsHop{"select", d, c, -1, true}, nsHop{"evaluate", d, c, -1, true})
		}
	}
	var probes []nsHop
	for d := range nsHistDocs {
		for _, c := range []int{0, 1} {
			probes = append(probes, nsHop{"select", d, c, -1, false}, nsHop{"evaluate", d, c, -1, false}, nsHop{"evaluate", d, c, -1, true})
		}
	}
	compile := func(it item) *xpath.Expr {
		e, err, _ := eng.Compile(it.s, it.withNS, it.ns)
		if err != nil {
			return nil
		}
		return e
	}
	return &explore.Space{
		Name: "HistNS", Desc: "prefixed name tests on two documents binding the prefix to different URIs (navigator exposes URIs; Compile / CompileWithNS): every history of <= 2 operations, every probe", Size: len(items),
		Label: func(i int) string { return fmt.Sprintf("%s ns=%v", items[i].s, items[i].ns) },
		Run: func(i int, w *explore.Worker) {
			it := items[i]
			if compile(it) == nil {
				w.InternalError("C04 namespace expression does not compile: " + it.s)
				return
			}
			w.Sample(fmt.Sprintf("%s ns=%v", it.s, it.ns))
			check := func(h []nsHop) {
				for _, p := range probes {
					w.Eval()
					w.Count("transitions", int64(len(h)+1))
					w.Count("traces_validated_against_impl", 1)
					want := p.apply(compile(it))
					e := compile(it)
					for _, o := range h {
						o.apply(e)
					}
					got := p.apply(e)
					if len(h) > 0 {
						w.NonTrivialCase(it.s)
					}
					if got.String() == want.String() {
						w.EngOutcome("agree")
						continue
					}
					w.EngOutcome("history-dependent")
					var ops []string
					for _, o := range h {
						ops = append(ops, o.Op)
					}
					w.Violation(&report.Case{Kind: "item", Expr: fmt.Sprintf("%s ns=%v", it.s, it.ns), Op: fmt.Sprint("history ", h, " then ", p), Expected: want.String(), Got: got.String(), Class: "history",
						Sig: "C04|NS|" + it.s + "|after:" + strings.Join(ops, ",") + "|probe:" + p.Op, Weight: len(h)*100 + len(it.s)})
				}
			}
			check(nil)
			for _, a := range ops {
				check([]nsHop{a})
				for _, b := range ops {
					check([]nsHop{a, b})
				}
			}
			w.RefOutcome("n/a")
		},
	}
}

func init() {
	report.RegisterReplayer("history", func(c *report.Case) (string, bool, error) {
		var h []hop
		var p hop
		if err := json.Unmarshal([]byte(c.Extra["history"].(string)), &h); err != nil {
			return "", false, err
		}
		if err := json.Unmarshal([]byte(c.Extra["probe"].(string)), &p); err != nil {
			return "", false, err
		}
		r := runHistory(c.Expr, h, p, nil)
		if r.ok {
			return "probe after history = probe on fresh compile", true, nil
		}
		return r.got + " (fresh: " + r.expected + ")", false, nil
	})
	explore.Register(&explore.Property{
		ID: "C04", Level: "model_checking",
		Rule: "explicit-state exploration of operation histories on one compiled *Expr: a state is the history that reaches it (query trees keep state in closures and cannot be copied); for each of ~250 expressions (every query-node type, every function closure) every history of <= 2 operations over 48 operations (Select/Evaluate x 2 documents x {root, inner element, leaf, attribute} x consume {0,1,all}), every repetition history (one operation 3..6 times), and every history of 3 operations over a reduced alphabet (thorough), is replayed on a fresh Compile and followed by each of 16 probes; the probe's observation must equal the same probe on a freshly compiled expression (differential oracle, exactly what the property states); states = distinct VerifDumpState renderings of the shared query tree seen after each operation, transitions = operations executed, traces_validated = histories x probes executed on the implementation; non-trivial = non-empty history; distinct = distinct expressions",
		Assumptions:    []string{"history depth <= 2 (3 on a reduced alphabet)", "two fixed history documents", "VerifDumpState only counts states, it never prunes"},
		Budget:         budget(240*time.Second, 30*time.Minute),
		MinRefOutcomes: 1,
		Spaces: func(tier string) []*explore.Space {
			if tier == "thorough" {
				return []*explore.Space{histSpace(tier, "core"), histSpace(tier, "wrapped"), histSpace3(tier), nsHistSpace()}
			}
			return []*explore.Space{histSpace(tier, "core"), histSpace(tier, "wrapped"), nsHistSpace()}
		},
	})
}

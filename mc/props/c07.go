package props

import (
	"fmt"
	"time"

	"verif/mc/doc"
	"verif/mc/explore"
	"verif/mc/gen"
	"verif/mc/ref"
)

// uniV: value universe — names {a}, text leaves, rule attributes {a,x},
// values assigned exhaustively from V.
func uniV(n int, vals []string) []*doc.Tree {
	return trees(fmt.Sprintf("V%d-%v", n, vals), &doc.Universe{MinN: 0, MaxN: n, Names: []string{"a"}, NoComment: true,
		Attr: "rule", AttrNames: []string{"a", "x"}, Vals: vals, ValFull: true})
}

var c07Vals = []string{"1", "2", "x", "", " -1 "}

func numOperands() []gen.Expr {
	return []gen.Expr{gen.N(0), gen.N(1), gen.N(2), &gen.Neg{E: gen.N(1)}, &gen.Num{V: 0.5, Lit: "0.5"},
		gen.B("div", gen.N(1), gen.N(0)), gen.B("div", gen.N(0), gen.N(0)),
		// doubles a few ulps apart compare as different numbers
		gen.B("+", &gen.Num{V: 0.1, Lit: "0.1"}, &gen.Num{V: 0.2, Lit: "0.2"}), &gen.Num{V: 0.3, Lit: "0.3"}, &gen.Num{V: 1.0000000000000002, Lit: "1.0000000000000002"},
		&gen.Num{V: 9007199254740993, Lit: "9007199254740993"}, &gen.Num{V: 9007199254740992, Lit: "9007199254740992"}}
}

func strOperands() []gen.Expr {
	return []gen.Expr{gen.S(""), gen.S("1"), gen.S("2"), gen.S("01"), gen.S(" 1"), gen.S("x"), gen.S("X")}
}

func boolOperands() []gen.Expr {
	return []gen.Expr{gen.F("true"), gen.F("false"), gen.B("=", gen.N(1), gen.N(1))}
}

func nsOperands() []gen.Expr {
	return []gen.Expr{relPath(gen.Ch("a")), relPath(gen.Ch("*")), relPath(gen.At("x")), relPath(gen.At("*")),
		relPath(gen.Ch("text()")), relPath(gen.Dot()), relPath(gen.Ch("nosuch")), relPath(gen.Ch("a"), gen.Ch("a"))}
}

// cursorMovers: node-set operands whose evaluation walks away from the context
// node (long axes) or moves the shared context cursor (predicates): what
// follows them in and/or or in a comparison must still see the context node.
func cursorMovers() []gen.Expr {
	return []gen.Expr{relPath(gen.St("following", "node()")), relPath(gen.St("following", "a")), relPath(gen.St("preceding", "node()")), relPath(gen.St("preceding", "a")),
		relPath(gen.Ch("*", relPath(gen.At("x")))), relPath(gen.Ch("a", relPath(gen.Ch("text()")))), relPath(gen.St("ancestor", "*")), relPath(gen.St("descendant", "node()")),
		relPath(gen.Ch("*", gen.B("=", relPath(gen.Dot()), gen.S("1")))), relPath(gen.St("following-sibling", "*")), relPath(gen.St("preceding-sibling", "node()")),
		// multi-step paths with a predicate on a later step (the engine's merge queries)
		relPath(gen.Ch("*"), gen.Ch("*", gen.F("not", relPath(gen.Ch("*"))))), relPath(gen.Ch("a"), gen.Ch("*", gen.N(1))), relPath(gen.Ch("*"), gen.At("*", gen.F("contains", relPath(gen.Dot()), gen.S("1")))),
		gen.F("count", relPath(gen.Ch("*"), gen.Ch("*", gen.F("not", relPath(gen.Ch("*")))))), relPath(gen.DotDot(), gen.Ch("*", gen.F("last")))}
}

var cmpOps = []string{"=", "!=", "<", "<=", ">", ">="}

// existential non-triviality: some node-set operand has >= 2 nodes of which
// some satisfy and some do not satisfy the comparison.
func cmpNonTrivial(env *ref.Env, ctx int, ast gen.Expr, want ref.Value) bool {
	b, ok := ast.(*gen.Bin)
	if !ok {
		return true
	}
	switch b.Op {
	case "=", "!=", "<", "<=", ">", ">=":
	default:
		return true
	}
	l, r := ref.Eval(env, ctx, b.L), ref.Eval(env, ctx, b.R)
	split := func(ns ref.Value, other ref.Value, left bool) bool {
		if ns.T != ref.TNodeSet || len(ns.NS) < 2 {
			return false
		}
		yes, no := 0, 0
		for _, n := range ns.NS {
			one := ref.Value{T: ref.TNodeSet, NS: []int{n}}
			var v bool
			if left {
				v = ref.Compare(env, b.Op, one, other)
			} else {
				v = ref.Compare(env, b.Op, other, one)
			}
			if v {
				yes++
			} else {
				no++
			}
		}
		return yes > 0 && no > 0
	}
	return split(l, r, true) || split(r, l, false)
}

func c07Spaces(tier string) []*explore.Space {
	nums, strs, bools, nss := numOperands(), strOperands(), boolOperands(), nsOperands()
	var k1 []gen.Expr
	for _, op := range cmpOps {
		for _, a := range nums {
			for _, b := range nums {
				k1 = append(k1, gen.B(op, a, b))
			}
		}
		for _, a := range nss {
			for _, b := range nums {
				k1 = append(k1, gen.B(op, a, b), gen.B(op, b, a))
			}
		}
	}
	for _, op := range []string{"=", "!="} {
		for _, a := range strs {
			for _, b := range strs {
				k1 = append(k1, gen.B(op, a, b))
			}
		}
		for _, a := range nss {
			for _, b := range strs {
				k1 = append(k1, gen.B(op, a, b), gen.B(op, b, a))
			}
			for _, b := range nss {
				k1 = append(k1, gen.B(op, a, b))
			}
		}
	}
	// K2: and/or over operands of every type; short-circuit witnesses
	all := append(append(append(append([]gen.Expr{}, nums...), strs...), bools...), nss...)
	var k2 []gen.Expr
	for _, op := range []string{"and", "or"} {
		for _, a := range all {
			for _, b := range all {
				k2 = append(k2, gen.B(op, a, b))
			}
		}
	}
	// the right operand raises a deliberate error iff it is evaluated
	boom := gen.F("contains", gen.N(0), gen.N(0))
	for _, a := range all {
		k2 = append(k2, gen.B("and", a, boom), gen.B("or", a, boom))
	}
	// three operands: left-to-right
	for _, a := range bools {
		for _, b := range bools {
			for _, c := range bools {
				k2 = append(k2, gen.B("or", gen.B("and", a, b), c), gen.B("or", a, gen.B("and", b, c)), gen.B("and", gen.B("and", a, b), c), gen.B("or", gen.B("or", a, b), c))
			}
		}
	}
	// K3: not / boolean of booleans and node-sets, nested twice
	var k3 []gen.Expr
	for _, x := range append(append([]gen.Expr{}, bools...), nss...) {
		k3 = append(k3, gen.F("not", x), gen.F("boolean", x), gen.F("not", gen.F("not", x)), gen.F("boolean", gen.F("not", x)),
			gen.F("not", gen.F("boolean", x)), gen.F("boolean", gen.F("boolean", x)))
	}
	for _, x := range k1[:0] {
		_ = x
	}
	k3 = append(k3, gen.F("true"), gen.F("false"), gen.F("not", gen.F("true")), gen.F("not", gen.F("false")))
	// K4: comparisons inside a predicate
	var k4 []hostCase
	relOps := nsOperandsRel()
	for _, h := range []gen.Step{gen.Ch("*"), gen.St("descendant-or-self", "node()"), gen.Ch("node()")} {
		for _, op := range cmpOps {
			for _, a := range relOps {
				for _, b := range nums {
					k4 = append(k4, hostCase{relPath(withPred(h, gen.B(op, a, b))), relPath(h)}, hostCase{relPath(withPred(h, gen.B(op, b, a))), relPath(h)})
				}
			}
		}
		for _, op := range []string{"=", "!="} {
			for _, a := range relOps {
				for _, b := range strs {
					k4 = append(k4, hostCase{relPath(withPred(h, gen.B(op, a, b))), relPath(h)}, hostCase{relPath(withPred(h, gen.B(op, b, a))), relPath(h)})
				}
				for _, b := range relOps {
					k4 = append(k4, hostCase{relPath(withPred(h, gen.B(op, a, b))), relPath(h)})
				}
			}
		}
	}
	// K6: ABSOLUTE path operands (walked once per outer node / per candidate)
	var k6 []gen.Expr
	var k6h []hostCase
	absOps := []gen.Expr{gen.AbsP(gen.Ch("a")), gen.AbsP(gen.Ch("a"), gen.At("x")), gen.AbsP(gen.Ch("*"), gen.Ch("*")), gen.AbsP(gen.DSlash(), gen.Ch("a")), gen.AbsP(gen.Ch("a"), gen.Ch("text()")), gen.AbsP(gen.DSlash(), gen.At("*")), gen.AbsP(gen.Ch("*"), gen.At("a"))}
	for _, op := range cmpOps {
		for _, ab := range absOps {
			for _, b := range nums[:3] {
				k6 = append(k6, gen.B(op, ab, b), gen.B(op, b, ab))
			}
		}
	}
	for _, op := range []string{"=", "!="} {
		for _, ab := range absOps {
			for _, a := range append(append([]gen.Expr{}, nss...), relPath(gen.Ch("*"), gen.Ch("*")), relPath(gen.Ch("*"), gen.At("*")), relPath(gen.DSlash2()...)) {
				k6 = append(k6, gen.B(op, a, ab), gen.B(op, ab, a))
			}
			for _, b := range absOps {
				k6 = append(k6, gen.B(op, ab, b))
			}
			for _, h := range []gen.Step{gen.Ch("*"), gen.St("descendant-or-self", "node()")} {
				for _, a := range nsOperandsRel() {
					k6h = append(k6h, hostCase{relPath(withPred(h, gen.B(op, a, ab))), relPath(h)}, hostCase{relPath(withPred(h, gen.B(op, ab, a))), relPath(h)},
						hostCase{gen.AbsP(gen.DSlash(), withPred(gen.Ch("*"), gen.B(op, a, ab))), gen.AbsP(gen.DSlash(), gen.Ch("*"))})
				}
			}
		}
	}
	// K5: a cursor-moving operand first, a context-dependent operand second:
	// at top level and inside a predicate
	var k5 []gen.Expr
	var k5h []hostCase
	ctxDep := []gen.Expr{relPath(gen.Dot()), relPath(gen.At("x")), relPath(gen.Ch("a")), relPath(gen.Ch("text()")), gen.B("=", relPath(gen.Dot()), gen.S("1")), gen.B("=", relPath(gen.At("x")), gen.S("1")),
		gen.B(">", gen.F("count", relPath(gen.Ch("*"))), gen.N(0)), gen.F("not", relPath(gen.Ch("a")))}
	for _, mv := range cursorMovers() {
		for _, cd := range ctxDep {
			for _, op := range []string{"and", "or"} {
				k5 = append(k5, gen.B(op, mv, cd), gen.B(op, cd, mv))
				_, isPath := mv.(*gen.Path) // not() is specified for booleans and node-sets only
				if isPath {
					k5 = append(k5, gen.B(op, gen.F("not", mv), cd))
				}
				for _, h := range []gen.Step{gen.Ch("*"), gen.St("descendant-or-self", "node()")} {
					k5h = append(k5h, hostCase{relPath(withPred(h, gen.B(op, mv, cd))), relPath(h)})
					if isPath {
						k5h = append(k5h, hostCase{relPath(withPred(h, gen.B(op, gen.F("not", mv), cd))), relPath(h)})
					}
				}
			}
		}
		for _, cd := range []gen.Expr{relPath(gen.Dot()), relPath(gen.At("x")), relPath(gen.Ch("a")), relPath(gen.Ch("text()"))} {
			for _, op := range []string{"=", "!="} {
				k5 = append(k5, gen.B(op, mv, cd), gen.B(op, cd, mv))
				for _, h := range []gen.Step{gen.Ch("*"), gen.St("descendant-or-self", "node()")} {
					k5h = append(k5h, hostCase{relPath(withPred(h, gen.B(op, mv, cd))), relPath(h)})
				}
			}
		}
	}
	n := 3
	if tier == "thorough" {
		n = 4
	}
	docs := func() []*doc.Tree { return uniV(n, c07Vals) }
	ev := &evalCfg{Prop: "C07", Ops: []string{"evaluate"}, Mode: "seq", NonTrivial: cmpNonTrivial}
	return []*explore.Space{
		exprSpace(fmt.Sprintf("K1xV%d", n), "comparisons over the listed type pairs x value universe", k1, docs, ev),
		exprSpace(fmt.Sprintf("K2xV%d", n), "and/or over operands of every type incl. short-circuit witnesses", k2, docs, ev),
		exprSpace(fmt.Sprintf("K3xV%d", n), "not()/boolean()/true()/false(), nested twice", k3, docs, ev),
		hostSpace(fmt.Sprintf("K4xV%d", n), "the same comparisons inside a predicate", k4, docs, "C07"),
		exprSpace(fmt.Sprintf("K5xV%d", n), "and/or and =/!= whose first operand walks a long axis or carries a predicate and whose second operand depends on the context node", k5, docs, ev),
		hostSpace(fmt.Sprintf("K5pxV%d", n), "the same inside a predicate", k5h, docs, "C07"),
		exprSpace(fmt.Sprintf("K6xV%d", n), "comparisons with absolute path operands (against numbers, relative and absolute node-sets)", k6, docs, ev),
		hostSpace(fmt.Sprintf("K6pxV%d", n), "the same inside a predicate (several candidates per evaluation)", k6h, docs, "C07"),
	}
}

func nsOperandsRel() []gen.Expr {
	return []gen.Expr{relPath(gen.Dot()), relPath(gen.At("a")), relPath(gen.At("x")), relPath(gen.At("*")), relPath(gen.Ch("text()")), relPath(gen.Ch("a")), relPath(gen.Ch("*"))}
}

func init() {
	explore.Register(&explore.Property{
		ID: "C07", Level: "exploration",
		Rule: "every comparison operand pair within the type combinations the property lists (numbers incl. NaN/Infinity, string literals, flat node-set paths) x 6 operators, every and/or pair over operands of every type (with a right operand that raises a deliberate error iff it is evaluated), not()/boolean() nested twice, and the same comparisons inside predicates, evaluated on every document of a value universe (values {1,2,x,''} assigned exhaustively to text and attribute nodes) from every context node and compared with the reference value; non-trivial = a node-set operand has >= 2 nodes of which some satisfy and some do not satisfy the comparison (the existential rule is observable); distinct = distinct expressions with a non-trivial case",
		Assumptions:    []string{"hand-written reference evaluator", "lawful NodeNavigator", "bounded trees and value alphabet"},
		Budget:         budget(200*time.Second, 25*time.Minute),
		MinRefOutcomes: 2,
		Spaces:         c07Spaces,
	})
}

package props

import (
	"strings"
	"fmt"
	"time"

	"verif/mc/doc"
	"verif/mc/eng"
	"verif/mc/explore"
	"verif/mc/gen"
	"verif/mc/ref"
	"verif/mc/report"
)

// absSpace: an absolute expression returns the same result (sequence / value)
// from every start node, and that result is the reference denotation.
func absSpace(name, desc string, exprs []gen.Expr, docs func() []*doc.Tree) *explore.Space {
	strs := make([]string, len(exprs))
	for i, p := range exprs {
		strs[i] = gen.Render(p)
	}
	return &explore.Space{
		Name: name, Desc: desc, Size: len(exprs),
		Label: func(i int) string { return strs[i] },
		Run: func(i int, w *explore.Worker) {
			s, ast := strs[i], exprs[i]
			e, err, pan := eng.Compile(s, false, nil)
			if err != nil || pan != nil {
				w.Eval()
				ec := &evalCase{Expr: s, T: docs()[0], Op: "evaluate", Mode: "seq"}
				w.Violation(ec.toCase("eval", "^nodes: || ^bool: || ^num: || ^str:", fmt.Sprint(err, pan), "compile", "C13|abs|"+gen.Skeleton(ast)+"|compile-rejected"))
				return
			}
			w.Sample(s)
			hist := &histTracker{}
			for _, t := range docs() {
				env := &ref.Env{T: t, SumNumericOnly: true} // sum() over non-numeric nodes is outside C08/C13
				want := ref.Eval(env, 0, ast)
				if want.T == ref.TUndef {
					continue
				}
				w.RefOutcome(ternary(want.T == ref.TNodeSet && len(want.NS) == 0, "empty", "nonempty"))
				r0 := eng.Evaluate(e, t, 0, false)
				hist.note(t, 0, "evaluate")
				for n := range t.Nodes {
					w.Eval()
					if n > 0 {
						w.NonTrivialCase(s)
					}
					o := eng.Evaluate(e, t, n, false)
					class := ""
					switch {
					case !eng.MatchesMode(o, want, "set"):
						class = "denotation"
					case normalise(o, "bag") != normalise(r0, "bag"):
						// same result = same nodes with the same multiplicities (the order in
						// which a non-flat path yields them is not specified anywhere)
						class = "start-dependent"
					}
					if class == "" {
						w.EngOutcome("agree")
						hist.note(t, n, "evaluate")
						continue
					}
					w.EngOutcome(class)
					ec := &evalCase{Expr: s, AST: ast, T: t, Ctx: n, Op: "evaluate", Mode: "seq"}
					ec.Mode = "bag"
					exp := normalise(r0, "bag")
					if class == "denotation" {
						ec.Mode = "set"
						exp = want.String()
					}
					vc := ec.toCase("eval", exp, normalise(o, ec.Mode), class, "C13|abs|"+gen.Skeleton(ast)+"|ctx="+ctxKind(t, n)+"|"+class)
					hist.attach(vc)
					w.Violation(vc)
					hist.note(t, n, "evaluate")
				}
			}
		},
	}
}

// composeSpace: set(Select(n, p)) = set(Select(root, addr(n)/p)).
func composeSpace(name, desc string, paths []*gen.Path, docs func() []*doc.Tree) *explore.Space {
	strs := make([]string, len(paths))
	for i, p := range paths {
		strs[i] = gen.Render(p)
	}
	return &explore.Space{
		Name: name, Desc: desc, Size: len(paths),
		Label: func(i int) string { return strs[i] },
		Run: func(i int, w *explore.Worker) {
			s, p := strs[i], paths[i]
			e, err, pan := eng.Compile(s, false, nil)
			if err != nil || pan != nil {
				return // C01/C02 report compile problems of these slices
			}
			w.Sample(s)
			for _, t := range docs() {
				env := &ref.Env{T: t}
				for n := range t.Nodes {
					w.Eval()
					addr := addrPath(t, n)
					full := &gen.Path{Abs: true, Steps: append(append([]gen.Step{}, addr.Steps...), p.Steps...)}
					fs := gen.Render(full)
					fe, ferr, fpan := eng.Compile(fs, false, nil)
					if ferr != nil || fpan != nil {
						ec := &evalCase{Expr: fs, T: t, Ctx: 0, Op: "select", Mode: "set"}
						w.Violation(ec.toCase("eval", "^nodes:", fmt.Sprint(ferr, fpan), "compile", "C13|compose|"+gen.Skeleton(p)+"|compile-rejected"))
						continue
					}
					want := ref.Eval(env, n, p)
					if len(want.NS) > 0 {
						w.NonTrivialCase(s)
						w.RefOutcome("nonempty")
					} else {
						w.RefOutcome("empty")
					}
					a := eng.Select(e, t, n, false)
					b := eng.Select(fe, t, 0, false)
					switch {
					case !eng.MatchesMode(a, want, "set"):
						// the relative side is wrong by itself: C01/C02 territory, but the
						// law is still violated — report with the relative expression
						w.EngOutcome("relative-side")
						ec := &evalCase{Expr: s, AST: p, T: t, Ctx: n, Op: "select", Mode: "set"}
						w.Violation(ec.toCase("eval", want.String(), normalise(a, "set"), "relative-side", "C13|compose|"+gen.Skeleton(p)+"|ctx="+ctxKind(t, n)+"|relative-side"))
					case !eng.MatchesMode(b, want, "set"):
						w.EngOutcome("composed-side")
						ec := &evalCase{Expr: fs, AST: full, T: t, Ctx: 0, Op: "select", Mode: "set"}
						w.Violation(ec.toCase("eval", want.String(), normalise(b, "set"), "composed-side", "C13|compose|"+gen.Skeleton(p)+"|node="+ctxKind(t, n)+"|composed-side"))
					default:
						w.EngOutcome("agree")
					}
				}
			}
		},
	}
}

// identitySpace: P[true()], (P), P | P have P's node set; not(not(P)) =
// boolean(P); also with P as the second operand after Q.
func identitySpace(name, desc string, paths []*gen.Path, docs func() []*doc.Tree) *explore.Space {
	strs := make([]string, len(paths))
	for i, p := range paths {
		strs[i] = gen.Render(p)
	}
	qs := []*gen.Path{relPath(gen.Ch("*")), relPath(gen.St("following", "node()")), relPath(gen.St("ancestor", "*")), gen.AbsP(gen.DSlash(), gen.Ch("a"))}
	return &explore.Space{
		Name: name, Desc: desc, Size: len(paths),
		Label: func(i int) string { return strs[i] },
		Run: func(i int, w *explore.Worker) {
			p := paths[i]
			last := p.Steps[len(p.Steps)-1]
			pt := &gen.Path{Abs: p.Abs, Steps: append(append([]gen.Step{}, p.Steps[:len(p.Steps)-1]...), withPred(last, gen.F("true")))}
			type variant struct {
				e    gen.Expr
				base gen.Expr // what it must equal (as a set / value)
				op   string
			}
			vs := []variant{
				{pt, p, "select"},
				{&gen.Group{E: p}, p, "select"},
				{gen.B("|", p, p), p, "select"},
				{gen.F("not", gen.F("not", p)), gen.F("boolean", p), "evaluate"},
			}
			for _, q := range qs {
				vs = append(vs,
					variant{gen.B("|", q, &gen.Group{E: p}), gen.B("|", q, p), "select"},
					variant{gen.B("|", q, pt), gen.B("|", q, p), "select"},
					variant{gen.B("and", q, gen.F("not", gen.F("not", p))), gen.B("and", q, p), "evaluate"},
					variant{gen.B("or", q, gen.F("not", gen.F("not", p))), gen.B("or", q, p), "evaluate"},
					variant{relPath(gen.Ch("*", q, p)), relPath(gen.Ch("*", q, gen.F("boolean", p))), "select"},
				)
			}
			// after a FILTERED operand that rejects candidates, inside comparison and
			// arithmetic operators (they do not save the cursor on their own)
			for _, q := range ctxMovers() {
				vs = append(vs,
					variant{gen.B("=", q, &gen.Group{E: p}), gen.B("=", q, p), "evaluate"},
					variant{gen.B("!=", q, pt), gen.B("!=", q, p), "evaluate"},
					// P enters through boolean(): P may be a multi-step path whose node SEQUENCE repeats
					// nodes (no property fixes count() of such a sequence; the identities are about sets)
					variant{gen.B("+", gen.F("count", q), gen.F("number", gen.F("boolean", &gen.Group{E: p}))), gen.B("+", gen.F("count", q), gen.F("number", gen.F("boolean", p))), "evaluate"},
				)
			}
			w.Sample(strs[i])
			for _, v := range vs {
				vsx, bsx := gen.Render(v.e), gen.Render(v.base)
				ve, err1, pan1 := eng.Compile(vsx, false, nil)
				be, err2, pan2 := eng.Compile(bsx, false, nil)
				if last.Seq != nil && pan1 == nil && err1 != nil && err2 == nil && pan2 == nil && strings.Contains(vsx, ")[true()]") {
					// a predicate directly on a step LIST p/(s1, s2)[true()] is not XPath and the
					// package's extension need not accept it; only if it is accepted must it be an identity
					w.Count("predicate_on_step_list_rejected", 1)
					continue
				}
				if err1 != nil || pan1 != nil || err2 != nil || pan2 != nil {
					w.Eval()
					ec := &evalCase{Expr: vsx, T: docs()[0], Op: v.op, Mode: "set"}
					w.Violation(ec.toCase("eval", "^nodes: || ^bool:", fmt.Sprint(err1, pan1, err2, pan2), "compile", "C13|identity|"+gen.Skeleton(v.e)+"|compile-rejected"))
					continue
				}
				hist := &histTracker{}
				for _, t := range docs() {
					env := &ref.Env{T: t}
					for n := range t.Nodes {
						w.Eval()
						want := ref.Eval(env, n, v.base)
						if want.T == ref.TNodeSet && len(want.NS) > 0 || want.T == ref.TBool && want.B {
							w.NonTrivialCase(vsx)
							w.RefOutcome("nonempty/true")
						} else {
							w.RefOutcome("empty/false")
						}
						a := runOp(ve, t, n, false, v.op)
						b := runOp(be, t, n, false, v.op)
						if eng.MatchesMode(a, want, "set") && normalise(a, "set") == normalise(b, "set") {
							w.EngOutcome("agree")
							hist.note(t, n, v.op)
							continue
						}
						w.EngOutcome("identity-broken")
						ec := &evalCase{Expr: vsx, AST: v.e, T: t, Ctx: n, Op: v.op, Mode: "set"}
						c := ec.toCase("eval", want.String(), normalise(a, "set"), "identity", "C13|identity|"+gen.Skeleton(v.e)+"|ctx="+ctxKind(t, n)+"|"+v.op)
						c.Note = "must equal " + bsx + " = " + normalise(b, "set")
						hist.attach(c)
						w.Violation(c)
						hist.note(t, n, v.op)
					}
				}
			}
		},
	}
}

// ctxMovers: relative filtered steps whose predicate rejects some candidates.
func ctxMovers() []gen.Expr {
	return []gen.Expr{
		relPath(gen.Ch("*", relPath(gen.At("*")))), relPath(gen.Ch("node()", relPath(gen.Ch("a")))),
		relPath(gen.Ch("*", gen.B("=", relPath(gen.Dot()), gen.S("1")))), relPath(gen.At("*", gen.B("=", relPath(gen.Dot()), gen.S("2")))),
		relPath(gen.St("following-sibling", "*", gen.F("not", relPath(gen.Ch("*"))))),
	}
}

var _ = report.Replay

func c13Spaces(tier string) []*explore.Space {
	forms := stepForms(allTests, true)
	s1 := pathsN(forms, 1)
	s2 := pathsN(forms, 2)
	var abs []gen.Expr
	var rel []*gen.Path
	for _, p := range s1 {
		if p.Abs {
			abs = append(abs, p)
		} else {
			rel = append(rel, p)
		}
	}
	k2 := 8
	if tier == "thorough" {
		k2 = 1
	}
	for i := 0; i < len(s2); i += k2 {
		p := s2[i]
		if p.Abs {
			abs = append(abs, p)
		}
	}
	for i := 0; i < len(s2); i += k2 {
		p := s2[i+(k2-1)/2]
		if !p.Abs {
			rel = append(rel, p)
		}
	}
	// absolute sub-expressions inside predicates, function arguments, unions
	A := func(steps ...gen.Step) *gen.Path { return gen.AbsP(steps...) }
	absInner := []gen.Expr{
		gen.F("count", A(gen.DSlash(), gen.Ch("a"))), gen.F("count", A(gen.DSlash(), gen.Ch("node()"))), gen.F("string", A(gen.DSlash(), gen.Ch("text()"))),
		A(gen.DSlash(), gen.Ch("a", A(gen.DSlash(), gen.Ch("b")))), gen.B("|", A(), A(gen.DSlash(), gen.Ch("a"))), gen.B("|", A(gen.DSlash(), gen.Ch("a")), A(gen.DSlash(), gen.Ch("b"))),
		A(gen.Ch("*", gen.B("=", gen.F("count", A(gen.DSlash(), gen.Ch("*"))), gen.N(2)))), gen.F("boolean", A(gen.DSlash(), gen.At("a"))),
		gen.B("=", A(gen.DSlash(), gen.Ch("a")), A(gen.DSlash(), gen.Ch("b"))), gen.B("+", gen.F("count", A(gen.Ch("*"))), gen.F("count", A(gen.DSlash(), gen.At("*")))),
		gen.F("name", A(gen.Ch("*"))), gen.F("sum", A(gen.DSlash(), gen.At("*"))), gen.F("not", A(gen.Ch("b"))), gen.B("and", A(gen.Ch("a")), A(gen.Ch("b"))),
		gen.F("concat", A(gen.Ch("*")), gen.S("-"), A(gen.DSlash(), gen.Ch("text()"))), A(gen.DSlash(), gen.Ch("*", gen.B("=", relPath(gen.Dot()), A(gen.DSlash(), gen.Ch("text()"))))),
		gen.F("string-join", A(gen.DSlash(), gen.Ch("*")), gen.S(",")), gen.F("normalize-space", A(gen.Ch("*"))), gen.F("string-length", A(gen.Ch("*"))),
		A(gen.DSlash(), gen.Ch("*", gen.F("last"))), A(gen.Ch("*", gen.N(1)), gen.Ch("*", gen.N(1))), &gen.Filter{Primary: &gen.Group{E: A(gen.DSlash(), gen.Ch("a"))}, Preds: []gen.Expr{gen.N(2)}},
	}
	abs = append(abs, absInner...)
	var p1 []*gen.Path
	atoms := boolAtoms()
	for hi, h := range reprHosts() {
		for ai, a := range atoms {
			if tier == "thorough" || (hi+ai)%4 == 0 {
				p1 = append(p1, relPath(withPred(h, a)))
			}
		}
	}
	// predicates whose LEFT operand is a filtered step (it rejects candidates, so
	// the engine moves the shared context cursor and must put it back) and whose
	// RIGHT operand reads the context unprotected — comparison and arithmetic
	// operands, not union/and/or which save the cursor themselves (seeded C13-M)
	var pm []*gen.Path
	for _, h := range []gen.Step{gen.Dot(), gen.Ch("*"), gen.Ch("node()"), gen.St("ancestor-or-self", "node()"), gen.St("descendant", "*"), gen.DotDot(), gen.St("following-sibling", "*")} {
		for _, l := range ctxMovers() {
			for _, r := range []gen.Expr{relPath(gen.Dot()), relPath(gen.Ch("*")), relPath(gen.At("*")), relPath(gen.Ch("text()"))} {
				pm = append(pm, relPath(withPred(h, gen.B("=", l, r))), relPath(withPred(h, gen.B("!=", l, r))),
					relPath(withPred(h, gen.B("=", gen.B("+", gen.F("count", l), gen.F("count", r)), gen.N(2)))))
			}
		}
	}
	p1 = append(p1, pm...)
	rel = append(rel, p1...)
	idPaths := append(append([]*gen.Path{}, s1...), p1...)
	for _, pre := range [][]gen.Step{nil, {gen.DSlash()}, {gen.Ch("*")}, {gen.Dot(), gen.DSlash()}, {gen.St("descendant", "*")}, {gen.St("following", "node()")}} {
		for _, h := range []gen.Step{gen.Ch("a"), gen.Ch("*"), gen.Ch("node()")} {
			for _, p := range []gen.Expr{gen.N(1), gen.N(2), gen.F("last"), gen.B("<", gen.F("position"), gen.N(2))} {
				abs := len(pre) > 0 && pre[0].Abbr == "//"
				idPaths = append(idPaths, &gen.Path{Abs: abs, Steps: append(append([]gen.Step{}, pre...), withPred(h, p))})
			}
		}
	}
	// the sequence form p/(s1, s2) as P, relative and absolute prefix
	for _, pre := range [][]gen.Step{{gen.Ch("*")}, {gen.Ch("a")}, {gen.Dot()}, {gen.St("descendant", "*")}} {
		for _, sq := range [][]gen.Step{{gen.Ch("a"), gen.Ch("b")}, {gen.Ch("*"), gen.At("*")}, {gen.Ch("text()"), gen.Ch("a")}, {gen.At("a"), gen.Ch("*")}} {
			idPaths = append(idPaths, &gen.Path{Steps: append(append([]gen.Step{}, pre...), gen.Step{Seq: sq})}, &gen.Path{Abs: true, Steps: append(append([]gen.Step{}, pre...), gen.Step{Seq: sq})})
		}
	}
	if tier == "thorough" {
		for i := 0; i < len(s2); i += 8 {
			idPaths = append(idPaths, s2[i])
		}
	}
	n := 3
	if tier == "thorough" {
		n = 4
	}
	docs := func() []*doc.Tree { return uniT(n) }
	d3 := func() []*doc.Tree { return uniT(3) }
	return []*explore.Space{
		absSpace("Abs", "absolute expressions (paths of the S1/S2 slices, absolute sub-expressions in predicates, arguments, unions): same result from every start node", abs, docs),
		composeSpace("Compose", "relative path at n = addr(n)/path from the root, for the S1, S2 and P1 slices", rel, docs),
		identitySpace("Identity", "P[true()], (P), P|P, not(not(P)) — alone and as second operand after Q", idPaths, d3),
		absSpace("AbsDeep", "absolute expressions from every node of spine documents of depth 4..6", abs, func() []*doc.Tree { return stridedTrees(uniDeep(6), 3) }),
	}
}

func init() {
	explore.Register(&explore.Property{
		ID: "C13", Level: "exploration",
		Rule: "metamorphic + reference: (1) every absolute expression of the slice is evaluated from EVERY node of every document and must give the result it gives from the root (and the reference denotation); (2) for every relative path p and every node n, Select(n,p) and Select(root, addr(n)/p) must both equal the reference set; (3) P[true()], (P), P|P, not(not(P)) vs boolean(P), also placed as second operand after Q in Q|P, Q and P, Q or P, *[Q][P]; non-trivial = start node other than the root / non-empty denotation; distinct = distinct expressions",
		Assumptions:    []string{"hand-written reference evaluator (so that 'both sides equally wrong' cannot pass)", "lawful NodeNavigator", "bounded trees"},
		Budget:         budget(200*time.Second, 25*time.Minute),
		MinRefOutcomes: 2,
		Spaces:         c13Spaces,
	})
}

package props

import (
	"strings"
	"fmt"
	"time"

	"verif/mc/doc"
	"verif/mc/eng"
	"verif/mc/explore"
	"verif/mc/gen"
	"verif/mc/ref"
	"verif/mc/report"
)

// uni14: T(<=n) over names {a, p:a, q:a, p:b}; namespace URIs are assigned by
// four schemes so that same-prefix/different-URI, different-prefix/same-URI,
// a prefixed name with the empty URI and a default namespace all occur.
func uni14(n int) []*doc.Tree {
	key := fmt.Sprintf("U14-%d", n)
	uniMu.Lock()
	if t, ok := uniCache[key]; ok {
		uniMu.Unlock()
		return t
	}
	uniMu.Unlock()
	base := (&doc.Universe{MinN: 0, MaxN: n, Names: []string{"a", "p:a", "q:a", "p:b"}, NoComment: true,
		Attr: "rule", AttrNames: []string{"a", "p:a"}, Vals: []string{"1", "2"}}).All()
	schemes := []func(prefix string, k int, isAttr bool) string{
		func(p string, k int, at bool) string {
			return map[string]string{"p": "u1", "q": "u2"}[p]
		},
		func(p string, k int, at bool) string {
			return map[string]string{"p": "u1", "q": "u1"}[p]
		},
		func(p string, k int, at bool) string {
			switch p {
			case "p":
				if k%2 == 0 {
					return "u1"
				}
				return "u2"
			case "q":
				return "u2"
			}
			if at {
				return ""
			}
			return "u1" // default namespace on unprefixed elements
		},
		func(p string, k int, at bool) string {
			return map[string]string{"p": "", "q": "u1"}[p]
		},
	}
	var out []*doc.Tree
	for _, t := range base {
		hasPrefixed := false
		for i := range t.Nodes {
			if t.Nodes[i].Prefix != "" {
				hasPrefixed = true
			}
		}
		for si, sc := range schemes {
			if !hasPrefixed && si != 0 && si != 2 {
				continue
			}
			spec := t.ToSpec()
			k := 0
			var rec func(s []doc.Spec)
			rec = func(s []doc.Spec) {
				for i := range s {
					if s[i].K != "e" {
						continue
					}
					pfx := ""
					if j := indexByte(s[i].N, ':'); j >= 0 {
						pfx = s[i].N[:j]
					}
					s[i].U = sc(pfx, k, false)
					for a := range s[i].A {
						ap := ""
						if j := indexByte(s[i].A[a].N, ':'); j >= 0 {
							ap = s[i].A[a].N[:j]
						}
						if ap != "" {
							s[i].A[a].U = sc(ap, k, true)
						}
					}
					k++
					rec(s[i].C)
				}
			}
			rec(spec)
			out = append(out, doc.Build(spec))
		}
	}
	uniMu.Lock()
	uniCache[key] = out
	uniMu.Unlock()
	return out
}

func indexByte(s string, b byte) int {
	for i := 0; i < len(s); i++ {
		if s[i] == b {
			return i
		}
	}
	return -1
}

type nsConfig struct {
	name   string
	withNS bool
	ns     map[string]string
	navNS  bool
}

func c14Configs() []nsConfig {
	var out []nsConfig
	for _, nav := range []bool{true, false} {
		nn := "navPlain"
		if nav {
			nn = "navNS"
		}
		out = append(out,
			nsConfig{"Compile/" + nn, false, nil, nav},
			nsConfig{"WithNS(nil)/" + nn, true, nil, nav},
			nsConfig{"WithNS({})/" + nn, true, map[string]string{}, nav},
			nsConfig{"WithNS(p=u1)/" + nn, true, map[string]string{"p": "u1"}, nav},
			nsConfig{"WithNS(p=u2)/" + nn, true, map[string]string{"p": "u2"}, nav},
			nsConfig{"WithNS(x=u1,p=u2)/" + nn, true, map[string]string{"x": "u1", "p": "u2"}, nav},
			nsConfig{"WithNS(p='')/" + nn, true, map[string]string{"p": ""}, nav},
		)
	}
	return out
}

// prefixesOf collects the prefixes used by name tests in an expression.
func prefixesOf(e gen.Expr, into map[string]bool) {
	switch v := e.(type) {
	case *gen.Path:
		if v.Start != nil {
			prefixesOf(v.Start, into)
		}
		for _, s := range v.Steps {
			if s.Test.Prefix != "" {
				into[s.Test.Prefix] = true
			}
			for _, p := range s.Preds {
				prefixesOf(p, into)
			}
		}
	case *gen.Call:
		for _, a := range v.Args {
			prefixesOf(a, into)
		}
	case *gen.Bin:
		prefixesOf(v.L, into)
		prefixesOf(v.R, into)
	case *gen.Group:
		prefixesOf(v.E, into)
	case *gen.Filter:
		prefixesOf(v.Primary, into)
	}
}

// usesFunc reports whether the expression calls the named function anywhere.
func usesFunc(e gen.Expr, name string) bool {
	switch v := e.(type) {
	case *gen.Call:
		if v.Name == name {
			return true
		}
		for _, a := range v.Args {
			if usesFunc(a, name) {
				return true
			}
		}
	case *gen.Path:
		if v.Start != nil && usesFunc(v.Start, name) {
			return true
		}
		for _, s := range v.Steps {
			for _, p := range s.Preds {
				if usesFunc(p, name) {
					return true
				}
			}
		}
	case *gen.Bin:
		return usesFunc(v.L, name) || usesFunc(v.R, name)
	case *gen.Neg:
		return usesFunc(v.E, name)
	case *gen.Group:
		return usesFunc(v.E, name)
	case *gen.Filter:
		if usesFunc(v.Primary, name) {
			return true
		}
		for _, p := range v.Preds {
			if usesFunc(p, name) {
				return true
			}
		}
	}
	return false
}

// uni14xml is uni14 with the prefix p spelled "xml" (same URIs).
func uni14xml(n int) []*doc.Tree {
	key := fmt.Sprintf("U14xml-%d", n)
	uniMu.Lock()
	if t, ok := uniCache[key]; ok {
		uniMu.Unlock()
		return t
	}
	uniMu.Unlock()
	ren := func(s string) string {
		if strings.HasPrefix(s, "p:") {
			return "xml:" + s[2:]
		}
		return s
	}
	var out []*doc.Tree
	for _, t := range uni14(n) {
		spec := t.ToSpec()
		var rec func(s []doc.Spec)
		rec = func(s []doc.Spec) {
			for i := range s {
				s[i].N = ren(s[i].N)
				for a := range s[i].A {
					s[i].A[a].N = ren(s[i].A[a].N)
				}
				rec(s[i].C)
			}
		}
		rec(spec)
		out = append(out, doc.Build(spec))
	}
	uniMu.Lock()
	uniCache[key] = out
	uniMu.Unlock()
	return out
}

func c14Spaces(tier string) []*explore.Space {
	tests := []string{"a", "p:a", "x:a", "*", "b", "p:b", "q:a"}
	var steps []gen.Expr
	for _, ax := range gen.Axes {
		for _, t := range tests {
			steps = append(steps, relPath(gen.St(ax, t)), gen.AbsP(gen.DSlash(), gen.St(ax, t)))
		}
	}
	for _, t := range []string{"a", "p:a", "x:a", "*"} {
		steps = append(steps, relPath(gen.At(t)), gen.AbsP(gen.DSlash(), gen.At(t)), relPath(gen.Ch(t)), gen.AbsP(gen.DSlash(), gen.Ch(t)))
	}
	// a prefixed name test directly followed by an operator NAME (and, or, div, mod) or a symbol
	for _, pr := range [][2]string{{"p:a", "q:a"}, {"p:a", "p:b"}, {"x:a", "p:a"}, {"p:a", "x:a"}, {"q:a", "a"}} {
		l, r := relPath(gen.Ch(pr[0])), relPath(gen.Ch(pr[1]))
		for _, op := range []string{"and", "or"} {
			steps = append(steps, gen.AbsP(gen.DSlash(), gen.Ch("*", gen.B(op, l, r))), relPath(gen.Ch("*", gen.B(op, l, r))))
		}
		steps = append(steps, gen.B("|", l, r), gen.AbsP(gen.DSlash(), gen.Ch("*", gen.B("=", gen.B("div", gen.F("count", l), gen.N(1)), gen.N(1)))),
			gen.AbsP(gen.DSlash(), gen.Ch("*", gen.B("=", gen.B("mod", gen.F("count", l), gen.N(2)), gen.F("count", r)))), gen.AbsP(gen.DSlash(), gen.Ch("*", gen.B("=", l, r))))
	}
	var fns []gen.Expr
	args := []gen.Expr{relPath(gen.Ch("*")), relPath(gen.At("*")), relPath(gen.Ch("nosuch")), relPath(gen.Dot()), relPath(gen.DotDot()), relPath(gen.Ch("*"), gen.Ch("*")),
		relPath(gen.Ch("*"), gen.At("*")), gen.AbsP(gen.DSlash(), gen.Ch("*")), gen.AbsP(gen.DSlash(), gen.At("*")), relPath(gen.Ch("p:a")), relPath(gen.Ch("node()")), relPath(gen.Ch("text()")),
		relPath(gen.St("following-sibling", "*")), relPath(gen.St("descendant", "*")), relPath(gen.St("preceding-sibling", "*")), relPath(gen.St("ancestor", "*")), relPath(gen.St("preceding", "*"))}
	for _, f := range []string{"name", "local-name", "namespace-uri"} {
		fns = append(fns, gen.F(f))
		for _, a := range args {
			fns = append(fns, gen.F(f, a))
		}
	}
	// name functions over arguments that keep iteration state, evaluated for
	// several candidates of a predicate
	G := func(e gen.Expr, preds ...gen.Expr) gen.Expr { return &gen.Filter{Primary: &gen.Group{E: e}, Preds: preds} }
	stateful := []gen.Expr{relPath(gen.Ch("*", relPath(gen.At("*")), gen.N(1))), G(relPath(gen.Ch("*")), gen.N(1)), G(relPath(gen.Ch("*")), gen.F("last")), relPath(gen.Ch("*", gen.B(">", gen.F("position"), gen.N(1)), gen.N(1))),
		G(relPath(gen.At("*")), gen.N(1)), relPath(gen.Ch("*"), gen.Ch("*", gen.N(1)))}
	for _, f := range []string{"name", "local-name", "namespace-uri"} {
		for _, a := range stateful {
			fns = append(fns, gen.F(f, a))
			for _, v := range []string{"a", "p:a", "u1", ""} {
				fns = append(fns, gen.AbsP(gen.DSlash(), gen.Ch("*", gen.B("=", gen.F(f, a), gen.S(v)))), relPath(gen.Ch("*", gen.B("!=", gen.F(f, a), gen.S(v)))))
			}
		}
	}
	// name functions inside predicates
	for _, f := range []string{"name", "local-name"} {
		for _, v := range []string{"a", "p:a", "q:a", "b"} {
			fns = append(fns, gen.AbsP(gen.DSlash(), gen.Ch("*", gen.B("=", gen.F(f), gen.S(v)))), gen.AbsP(gen.DSlash(), gen.At("*", gen.B("=", gen.F(f), gen.S(v)))))
		}
	}
	n := 3
	if tier == "thorough" {
		n = 4
	}
	docs := func() []*doc.Tree { return uni14(n) }
	var spaces []*explore.Space
	var unbound []struct {
		cfg nsConfig
		e   gen.Expr
	}
	addCfg := func(c nsConfig, steps, fns []gen.Expr, docs func() []*doc.Tree) {
		keep := func(in []gen.Expr, nsURI bool) []gen.Expr {
			var out []gen.Expr
			for _, e := range in {
				if !nsURI && !c.navNS && usesFunc(e, "namespace-uri") {
					continue // a navigator without URIs cannot answer namespace-uri()
				}
				pf := map[string]bool{}
				prefixesOf(e, pf)
				bad := false
				if c.withNS && c.ns != nil {
					for p := range pf {
						if _, ok := c.ns[p]; !ok {
							bad = true
						}
					}
				}
				if bad {
					unbound = append(unbound, struct {
						cfg nsConfig
						e   gen.Expr
					}{c, e})
					continue
				}
				out = append(out, e)
			}
			return out
		}
		cfg := &evalCfg{Prop: "C14", Ops: []string{"select"}, Mode: "set", WithNS: c.withNS, NS: c.ns, NavNS: c.navNS,
			SigOf: func(ast gen.Expr) string { return c.name + "|" + gen.Skeleton(ast) }}
		cfgE := &evalCfg{Prop: "C14", Ops: []string{"evaluate"}, Mode: "set", WithNS: c.withNS, NS: c.ns, NavNS: c.navNS,
			SigOf: func(ast gen.Expr) string { return c.name + "|" + gen.Skeleton(ast) }}
		spaces = append(spaces, exprSpace("Steps:"+c.name, "name tests on all 12 axes, one step and after //", keep(steps, true), docs, cfg))
		spaces = append(spaces, exprSpace("Funcs:"+c.name, "name(), local-name(), namespace-uri() without and with node-set arguments", keep(fns, false), docs, cfgE))
	}
	for _, c := range c14Configs() {
		addCfg(c, steps, fns, docs)
	}
	// the same with the prefix p spelled "xml" everywhere (documents, expressions, maps): no prefix is special
	renameP := func(in []gen.Expr, stride int) []gen.Expr {
		var out []gen.Expr
		for i := 0; i < len(in); i += stride {
			s := strings.ReplaceAll(gen.Render(in[i]), "p:", "xml:")
			ast, err := ref.Parse(s)
			if err != nil {
				panic("c14 xml variant does not parse: " + s + ": " + err.Error())
			}
			out = append(out, ast)
		}
		return out
	}
	xmlDocs := func() []*doc.Tree { return uni14xml(n) }
	for _, c := range []nsConfig{{"Compile/navNS/xml", false, nil, true}, {"WithNS({})/navNS/xml", true, map[string]string{}, true}, {"WithNS(xml=u1)/navNS/xml", true, map[string]string{"xml": "u1"}, true},
		{"WithNS(x=u1,xml=u2)/navNS/xml", true, map[string]string{"x": "u1", "xml": "u2"}, true}, {"WithNS(xml=u2)/navPlain/xml", true, map[string]string{"xml": "u2"}, false}} {
		addCfg(c, renameP(steps, 2), renameP(fns, 3), xmlDocs)
	}
	ub := unbound
	spaces = append(spaces, &explore.Space{
		Name: "Unbound", Desc: "a prefix that the namespace map does not bind must be a compile error", Size: len(ub),
		Label: func(i int) string { return gen.Render(ub[i].e) },
		Run: func(i int, w *explore.Worker) {
			s := gen.Render(ub[i].e)
			w.Eval()
			w.NonTrivialCase(s + ub[i].cfg.name)
			w.RefOutcome("compile-error")
			e, err, pan := eng.Compile(s, true, ub[i].cfg.ns)
			if pan == nil && err != nil && e == nil {
				w.EngOutcome("agree")
				return
			}
			w.EngOutcome("accepted")
			w.Violation(&report.Case{Kind: "compile", Expr: s, WithNS: true, NS: ub[i].cfg.ns, Expected: "compile-error", Got: "accepted",
				Class: "accepted", Sig: "C14|unbound|" + ub[i].cfg.name + "|" + gen.Skeleton(ub[i].e), Weight: len(s)})
		},
	})
	return spaces
}

func init() {
	// "compile": expected is "compile-error" or "compile-ok"
	report.RegisterReplayer("compile", func(c *report.Case) (string, bool, error) {
		e, err, pan := eng.Compile(c.Expr, c.WithNS, c.NS)
		obs := "compile-ok"
		switch {
		case pan != nil:
			obs = "compile-" + pan.String()
		case err != nil && e == nil:
			obs = "compile-error"
		case err != nil || e == nil:
			obs = fmt.Sprintf("inconsistent: expr=%v err=%v", e != nil, err)
		}
		return obs, obs == c.Expected, nil
	})
	explore.Register(&explore.Property{
		ID: "C14", Level: "exploration",
		Rule: "configurations {navigator with / without NamespaceURL} x {Compile, CompileWithNS(nil), ({}), {p:u1}, {p:u2}, {x:u1,p:u2} (rebinding), {p:''}} x name tests {a, p:a, x:a, q:a, b, p:b, *} on all 12 axes (one step and after //) and name()/local-name()/namespace-uri() without argument from every context and with node-set arguments (empty, one, several nodes; reverse-axis arguments included), on every document of T(<=N) over names {a, p:a, q:a, p:b} under four URI assignment schemes (same prefix/different URI, different prefix/same URI, prefixed name with empty URI, default namespace); oracle = the documented match rule transcribed; an unbound prefix must be a compile error; non-trivial = non-empty denotation; distinct = distinct (configuration, expression)",
		Assumptions:    []string{"hand-written reference evaluator", "lawful NodeNavigator", "namespace-uri() only claimed for navigators that expose URIs"},
		Budget:         budget(200*time.Second, 25*time.Minute),
		MinRefOutcomes: 2,
		Spaces:         c14Spaces,
	})
}

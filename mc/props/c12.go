package props

import (
	"fmt"
	"time"

	"github.com/antchfx/xpath"

	"verif/mc/doc"
	"verif/mc/eng"
	"verif/mc/explore"
	"verif/mc/gen"
	"verif/mc/report"
)

func flatForms() []gen.Step {
	return []gen.Step{gen.Ch("a"), gen.Ch("b"), gen.Ch("*"), gen.Ch("node()"), gen.Ch("text()"), gen.At("a"), gen.At("*"),
		gen.Dot(), gen.St("self", "a"), gen.St("self", "*")}
}

func flatPaths(maxSteps int) []*gen.Path {
	forms := flatForms()
	var out []*gen.Path
	var rec func(st []gen.Step)
	rec = func(st []gen.Step) {
		if len(st) > 0 {
			out = append(out, &gen.Path{Steps: append([]gen.Step{}, st...)}, &gen.Path{Abs: true, Steps: append([]gen.Step{}, st...)})
		}
		if len(st) == maxSteps {
			return
		}
		for _, f := range forms {
			rec(append(st, f))
		}
	}
	rec(nil)
	return out
}

func asExprs(ps []*gen.Path) []gen.Expr {
	out := make([]gen.Expr, len(ps))
	for i, p := range ps {
		out[i] = p
	}
	return out
}

// ---- iterator protocol ---------------------------------------------------

type protoResult struct {
	ok          bool
	what        string // which relation failed
	expected    string
	got         string
	states      int64
	transitions int64
}

func navProps(n xpath.NodeNavigator) string {
	return fmt.Sprintf("%d/%d/%s/%s/%q", doc.At(n), n.NodeType(), n.Prefix(), n.LocalName(), n.Value())
}

func treeProps(t *doc.Tree, i int) string {
	nd := &t.Nodes[i]
	var k xpath.NodeType
	switch nd.Kind {
	case doc.Root:
		k = xpath.RootNode
	case doc.Elem:
		k = xpath.ElementNode
	case doc.Attr:
		k = xpath.AttributeNode
	case doc.Text:
		k = xpath.TextNode
	default:
		k = xpath.CommentNode
	}
	return fmt.Sprintf("%d/%d/%s/%s/%q", i, k, nd.Prefix, nd.Local, t.StringValue(i))
}

// protoCheck drives Select's iterator step by step and checks the C12
// relations for expression s on (t, ctx). extra = MoveNext calls after the
// first false.
func protoCheck(s string, t *doc.Tree, ctx int, extra int) (res protoResult) {
	res.ok = true
	fail := func(what, exp, got string) protoResult {
		res.ok, res.what, res.expected, res.got = false, what, exp, got
		return res
	}
	defer func() {
		if r := recover(); r != nil {
			res.ok, res.what, res.expected, res.got = false, "panic", "no panic", fmt.Sprint(r)
		}
	}()
	e, err := xpath.Compile(s)
	if err != nil {
		return fail("compile", "compiles", err.Error())
	}
	b := &doc.Budget{Limit: eng.DefaultBudget}
	start := doc.NewNav(t, ctx, b)
	it := e.Select(start)
	var seq []int
	limit := 50*t.Len() + 50
	for {
		res.transitions++
		if !it.MoveNext() {
			break
		}
		res.states++
		cur := it.Current()
		at := doc.At(cur)
		if at < 0 || at >= t.Len() {
			return fail("current", "a node of the document", fmt.Sprint(at))
		}
		// Current is positioned on the node just reported: all observable
		// properties agree with the tree, and a second Current() is the same
		res.transitions += 2
		if navProps(cur) != treeProps(t, at) {
			return fail("current-properties", treeProps(t, at), navProps(cur))
		}
		if doc.At(it.Current()) != at {
			return fail("current-idempotent", fmt.Sprint(at), fmt.Sprint(doc.At(it.Current())))
		}
		seq = append(seq, at)
		if len(seq) > limit {
			return fail("termination", "finite", "more than "+fmt.Sprint(limit)+" results")
		}
	}
	last := doc.At(it.Current())
	for k := 0; k < extra; k++ {
		res.transitions++
		res.states++
		if it.MoveNext() {
			return fail("movenext-after-false", "false forever", fmt.Sprintf("true on extra call %d (now at %d)", k+1, doc.At(it.Current())))
		}
		if doc.At(it.Current()) != last {
			return fail("current-after-false", fmt.Sprint(last), fmt.Sprint(doc.At(it.Current())))
		}
	}
	if seq == nil {
		seq = []int{}
	}
	// Evaluate returns an iterator producing the same sequence
	v := e.Evaluate(doc.NewNav(t, ctx, b))
	it2, ok := v.(*xpath.NodeIterator)
	if !ok {
		return fail("evaluate-type", "*NodeIterator", fmt.Sprintf("%T", v))
	}
	seq2 := eng.Drain(it2, limit)
	res.transitions += int64(len(seq2)) + 1
	if !eng.EqInts(seq, seq2) {
		return fail("evaluate-vs-select", fmt.Sprint(seq), fmt.Sprint(seq2))
	}
	// count(E) = length
	ce, err := xpath.Compile("count(" + s + ")")
	if err != nil {
		return fail("compile-count", "compiles", err.Error())
	}
	// (asked twice of the same compiled expression: the relation is not a
	// first-use-only one)
	for k := 0; k < 2; k++ {
		cv := ce.Evaluate(doc.NewNav(t, ctx, b))
		if f, ok := cv.(float64); !ok || f != float64(len(seq)) {
			return fail(ternary(k == 0, "count", "count-second-evaluation"), fmt.Sprint(len(seq)), fmt.Sprint(cv))
		}
	}
	if v2, ok := e.Evaluate(doc.NewNav(t, ctx, b)).(*xpath.NodeIterator); !ok {
		return fail("evaluate-type-second-evaluation", "*NodeIterator", "other")
	} else if seq3 := eng.Drain(v2, limit); !eng.EqInts(seq, seq3) {
		return fail("evaluate-vs-select-second-evaluation", fmt.Sprint(seq), fmt.Sprint(seq3))
	}
	// reverse(E) = reversed sequence
	re, err := xpath.Compile("reverse(" + s + ")")
	if err != nil {
		return fail("compile-reverse", "compiles", err.Error())
	}
	rit := re.Select(doc.NewNav(t, ctx, b))
	rseq := eng.Drain(rit, limit)
	for k := 0; k < extra; k++ {
		res.transitions++
		if rit.MoveNext() {
			return fail("reverse-movenext-after-false", "false forever", fmt.Sprintf("true on extra call %d", k+1))
		}
	}
	want := make([]int, len(seq))
	for i, x := range seq {
		want[len(seq)-1-i] = x
	}
	if !eng.EqInts(rseq, want) {
		return fail("reverse", fmt.Sprint(want), fmt.Sprint(rseq))
	}
	res.transitions += int64(len(rseq)) + 1
	return res
}

// wordCheck runs every operation word over {M(oveNext), C(urrent)} of length
// <= L on a fresh iterator and checks it against the sequence model.
func wordCheck(s string, t *doc.Tree, ctx int, seq []int, L int) (res protoResult) {
	res.ok = true
	defer func() {
		if r := recover(); r != nil {
			res.ok, res.what, res.expected, res.got = false, "panic", "no panic", fmt.Sprint(r)
		}
	}()
	e, err := xpath.Compile(s)
	if err != nil {
		res.ok, res.what, res.got = false, "compile", err.Error()
		return
	}
	seen := map[string]bool{}
	for n := 0; n <= L; n++ {
		for w := 0; w < 1<<uint(n); w++ {
			it := e.Select(doc.NewNav(t, ctx, &doc.Budget{Limit: eng.DefaultBudget}))
			idx := 0 // number of successful MoveNext so far
			done := false
			pos := ctx
			word := make([]byte, n)
			for k := 0; k < n; k++ {
				res.transitions++
				if w>>uint(k)&1 == 0 {
					word[k] = 'M'
					got := it.MoveNext()
					want := !done && idx < len(seq)
					if got != want {
						res.ok, res.what, res.expected, res.got = false, "word:"+string(word[:k+1]), fmt.Sprint(want), fmt.Sprint(got)
						return
					}
					if got {
						pos = seq[idx]
						idx++
					} else {
						if !done {
							// the property fixes Current only after a reported node; after
							// the first false it must merely stay where it is
							pos = doc.At(it.Current())
						}
						done = true
					}
				} else {
					word[k] = 'C'
					if at := doc.At(it.Current()); at != pos {
						res.ok, res.what, res.expected, res.got = false, "word:"+string(word[:k+1]), fmt.Sprint(pos), fmt.Sprint(at)
						return
					}
				}
				st := fmt.Sprintf("%d/%v", idx, done)
				if !seen[st] {
					seen[st] = true
				}
			}
		}
	}
	res.states = int64(len(seen))
	return
}

func protoSpace(name, desc string, exprs []gen.Expr, docs func() []*doc.Tree, words bool) *explore.Space {
	strs := make([]string, len(exprs))
	for i, p := range exprs {
		strs[i] = gen.Render(p)
	}
	return &explore.Space{
		Name: name, Desc: desc, Size: len(exprs),
		Label: func(i int) string { return strs[i] },
		Run: func(i int, w *explore.Worker) {
			s := strs[i]
			w.Sample(s)
			for _, t := range docs() {
				for ctx := range t.Nodes {
					w.Eval()
					r := protoCheck(s, t, ctx, 3)
					w.Count("states", r.states)
					w.Count("transitions", r.transitions)
					w.Count("traces_validated_against_impl", 1)
					if r.states > 0 {
						w.NonTrivialCase(s)
						w.RefOutcome("nonempty")
					} else {
						w.RefOutcome("empty")
					}
					if r.ok && words {
						// the sequence model for the word walk is Select's own sequence
						e, _ := xpath.Compile(s)
						seq := eng.Drain(e.Select(doc.NewNav(t, ctx, nil)), 0)
						r2 := wordCheck(s, t, ctx, seq, len(seq)+3)
						w.Count("states", r2.states)
						w.Count("transitions", r2.transitions)
						w.Count("traces_validated_against_impl", int64(1)<<uint(len(seq)+4)-1)
						if !r2.ok {
							r = r2
						}
					}
					if r.ok {
						w.EngOutcome("agree")
						continue
					}
					w.EngOutcome(r.what)
					what := r.what
					if len(what) > 5 && what[:5] == "word:" {
						what = "word"
					}
					c := &report.Case{Kind: "proto", Expr: s, Tree: t.ToSpec(), TreeS: t.String(), Ctx: ctx, CtxS: t.Describe(ctx),
						Op: r.what, Expected: r.expected, Got: r.got, Class: what,
						Extra:  map[string]interface{}{"words": words},
						Sig:    "C12|proto|" + gen.Skeleton(exprs[i]) + "|" + what,
						Weight: t.Len()*1000 + len(s)}
					w.Violation(c)
				}
			}
		},
	}
}

func init() {
	report.RegisterReplayer("proto", func(c *report.Case) (string, bool, error) {
		t := doc.Build(c.Tree)
		r := protoCheck(c.Expr, t, c.Ctx, 3)
		if r.ok {
			if wd, _ := c.Extra["words"].(bool); wd {
				e, err := xpath.Compile(c.Expr)
				if err == nil {
					seq := eng.Drain(e.Select(doc.NewNav(t, c.Ctx, nil)), 0)
					r = wordCheck(c.Expr, t, c.Ctx, seq, len(seq)+3)
				}
			}
		}
		if r.ok {
			return "all iterator relations hold", true, nil
		}
		return r.what + ": expected " + r.expected + " got " + r.got, false, nil
	})
}

func stridedTrees(ts []*doc.Tree, k int) []*doc.Tree {
	var out []*doc.Tree
	for i := 0; i < len(ts); i += k {
		out = append(out, ts[i])
	}
	return out
}

func stratum(xs []gen.Expr, k int) []gen.Expr {
	var out []gen.Expr
	for i := 0; i < len(xs); i += k {
		out = append(out, xs[i])
	}
	return out
}

func c12Spaces(tier string) []*explore.Space {
	seq := &evalCfg{Prop: "C12", Ops: []string{"select", "evaluate"}, Mode: "seq"}
	// O2: single predicate-free descendant steps
	var o2 []gen.Expr
	for _, x := range allTests {
		o2 = append(o2, gen.AbsP(gen.DSlash(), gen.Ch(x)), relPath(gen.Dot(), gen.DSlash(), gen.Ch(x)), relPath(gen.St("descendant", x)),
			gen.AbsP(gen.St("descendant-or-self", x)), relPath(gen.St("descendant-or-self", x)), gen.AbsP(gen.St("descendant", x)),
			// the expansion of // written out (C10: // = /descendant-or-self::node()/)
			relPath(gen.St("descendant-or-self", "node()"), gen.Ch(x)), gen.AbsP(gen.St("descendant-or-self", "node()"), gen.Ch(x)), relPath(gen.Dot(), gen.St("descendant-or-self", "node()"), gen.Ch(x)))
	}
	// O3: flat paths with the predicates C02/C03 allow
	var o3 []gen.Expr
	bp := smallAtoms()
	pp := []gen.Expr{gen.N(1), gen.N(2), gen.F("last"), gen.B("<", gen.F("position"), gen.N(3)), gen.B("!=", gen.F("position"), gen.F("last")), gen.B("-", gen.F("last"), gen.N(1))}
	flat1 := flatForms()
	for _, f := range flat1 {
		var preds [][]gen.Expr
		for _, b := range bp {
			preds = append(preds, []gen.Expr{b})
		}
		if f.Axis == "child" {
			for _, p := range pp {
				preds = append(preds, []gen.Expr{p})
				for _, b := range bp[:8] {
					preds = append(preds, []gen.Expr{p, b})
				}
			}
		}
		for _, ps := range preds {
			o3 = append(o3, relPath(withPred(f, ps...)))
			for _, g := range []gen.Step{gen.Ch("*"), gen.Ch("node()"), gen.At("*"), gen.Dot()} {
				o3 = append(o3, relPath(withPred(f, ps...), g), relPath(gen.Ch("*"), withPred(f, ps...)), relPath(gen.Ch("*"), withPred(f, ps...), g))
			}
		}
	}
	// node-set expression slices for the protocol relations
	forms := stepForms(allTests, true)
	s1 := asExprs(pathsN(forms, 1))
	s2 := asExprs(pathsN(forms, 2))
	var p1 []gen.Expr
	for _, h := range reprHosts() {
		for _, a := range boolAtoms() {
			p1 = append(p1, relPath(withPred(h, a)))
		}
	}
	var u2 []gen.Expr
	s1r := pathsN(stepForms([]string{"a", "node()"}, true), 1)
	for _, a := range s1r {
		for _, b := range s1r {
			u2 = append(u2, gen.B("|", a, b))
		}
	}
	// reverse(E) and other iterator-producing wrappers are node-set expressions
	// too: they go through the same protocol walk
	var wrapped []gen.Expr
	for i, e := range s1 {
		if i%3 == 0 {
			wrapped = append(wrapped, gen.F("reverse", e), gen.F("reverse", gen.F("reverse", e)), &gen.Group{E: e}, &gen.Filter{Primary: &gen.Group{E: e}, Preds: []gen.Expr{gen.F("true")}})
		}
	}
	for _, e := range stratum(u2, 11) {
		wrapped = append(wrapped, gen.F("reverse", e))
	}
	// positional filters on a parenthesised expression / stacked on a boolean
	// predicate: node-set expressions whose evaluation keeps counters
	for i, e := range s1 {
		if i%4 == 0 {
			wrapped = append(wrapped, &gen.Filter{Primary: &gen.Group{E: e}, Preds: []gen.Expr{gen.N(2)}}, &gen.Filter{Primary: &gen.Group{E: e}, Preds: []gen.Expr{gen.F("last")}},
				&gen.Filter{Primary: &gen.Group{E: e}, Preds: []gen.Expr{gen.F("true"), gen.N(1)}})
		}
	}
	for _, st := range []gen.Step{gen.Ch("*"), gen.Ch("a"), gen.Ch("node()")} {
		for _, bp := range []gen.Expr{gen.F("true"), relPath(gen.At("*")), gen.F("not", relPath(gen.Ch("*")))} {
			for _, pp := range []gen.Expr{gen.N(1), gen.N(2), gen.F("last")} {
				wrapped = append(wrapped, relPath(withPred(st, bp, pp)), relPath(gen.Ch("*"), withPred(st, bp, pp)))
			}
		}
	}
	t2 := func() []*doc.Tree { return uniT(2) }
	t3 := func() []*doc.Tree { return uniT(3) }
	t4 := func() []*doc.Tree { return uniT(4) }
	t5 := func() []*doc.Tree { return uniT(5) }
	m22 := func() []*doc.Tree { return uniM(2, 2) }
	m23 := func() []*doc.Tree { return uniM(2, 3) }
	wordExprs := []gen.Expr{}
	wordExprs = append(wordExprs, s1...)
	wordExprs = append(wordExprs, stratum(s2, 97)...)
	wordExprs = append(wordExprs, stratum(p1, 23)...)
	wordExprs = append(wordExprs, stratum(u2, 29)...)
	wordExprs = append(wordExprs, stratum(wrapped, 5)...)
	if tier == "thorough" {
		return []*explore.Space{
			exprSpace("O1xT5", "flat paths <= 3 steps x T(<=5): document order, no duplicates", asExprs(flatPaths(3)), t5, seq),
			exprSpace("O1bxT4", "flat paths of 4 steps x T(<=4)", asExprs(flatPaths(4)), t4, seq),
			exprSpace("O1xM23", "flat paths <= 3 steps x multi-parent universe", asExprs(flatPaths(3)), m23, seq),
			exprSpace("O2xT5", "single predicate-free descendant steps x T(<=5)", o2, t5, seq),
			exprSpace("O3xT4", "flat paths with boolean / leading positional predicates x T(<=4)", o3, t4, seq),
			exprSpace("O3xM23", "flat paths with predicates x multi-parent universe", o3, m23, seq),
			protoSpace("R1xT3", "iterator protocol + Evaluate/count/reverse relations: S1, S2/4, P1, U2 slices x T(<=3)", append(append(append(append(append([]gen.Expr{}, s1...), stratum(s2, 4)...), p1...), u2...), wrapped...), t3, false),
			protoSpace("R2xT3", "every word over {MoveNext,Current} of length <= len+3 x T(<=3)", wordExprs, t3, true),
		}
	}
	return []*explore.Space{
		exprSpace("O1xT4", "flat paths <= 3 steps x T(<=4): document order, no duplicates", asExprs(flatPaths(3)), t4, seq),
		exprSpace("O1xM22", "flat paths <= 3 steps x multi-parent universe", asExprs(flatPaths(3)), m22, seq),
		exprSpace("O2xT4", "single predicate-free descendant steps x T(<=4)", o2, t4, seq),
		exprSpace("O3xT3", "flat paths with boolean / leading positional predicates x T(<=3)", o3, t3, seq),
		protoSpace("R1xT3", "iterator protocol + Evaluate/count/reverse relations: S1, S2/16, P1/4, U2/4 slices x T(<=3)", append(append(append(append(append([]gen.Expr{}, s1...), stratum(s2, 16)...), stratum(p1, 4)...), stratum(u2, 4)...), wrapped...), t3, false),
		protoSpace("R2xT2", "every word over {MoveNext,Current} of length <= len+3 x T(<=2)", wordExprs, t2, true),
		protoSpace("R3xWide5", "iterator protocol + Evaluate/count/reverse relations on sequences of 5+ nodes: S1 and wrappers x one parent with 5 children, spines of depth 4..6", append(append([]gen.Expr{}, stratum(s1, 2)...), stratum(wrapped, 3)...), func() []*doc.Tree {
			return append(append([]*doc.Tree{}, stridedTrees(uniWide(5), 9)...), stridedTrees(uniDeep(6), 7)...)
		}, false),
		exprSpace("O1xWide5", "flat paths <= 2 steps x one parent with 5 children: document order", asExprs(flatPaths(2)), func() []*doc.Tree { return uniWide(5) }, seq),
	}
}

func init() {
	explore.Register(&explore.Property{
		ID: "C12", Level: "model_checking",
		Rule: "order part: every flat path (child/attribute/self steps, <= 3-4 steps, relative and absolute, also with the predicates C02/C03 allow) and every single predicate-free descendant step, on every document of T(<=N) and the multi-parent universe from every context, must yield exactly the reference sequence (document order, no repeats) through Select and through Evaluate. protocol part: the NodeIterator of every node-set expression of the slices S1, S2, P1, U2 is explored as a state machine — states are (results consumed, exhausted) positions, transitions are MoveNext/Current calls; the walk with 3 extra MoveNext after the first false, and (R2) every operation word over {MoveNext, Current} up to length len+3, are checked against the sequence model, plus seq(Evaluate)=seq(Select), count(E)=len, reverse(E)=reversed, the count and the Evaluate sequence asked a second time of the same compiled expression; wrappers reverse(E), (E), (E)[true()], (E)[n], (E)[last()], (E)[true()][1], step[bool][n] go through the same walk; non-trivial = non-empty sequence; distinct = distinct expressions",
		Assumptions:    []string{"hand-written reference evaluator (order part)", "lawful NodeNavigator", "bounded trees; words bounded by len+3"},
		Budget:         budget(240*time.Second, 30*time.Minute),
		MinRefOutcomes: 2,
		Spaces:         c12Spaces,
	})
}

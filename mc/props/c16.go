package props

import (
	"errors"
	"fmt"
	"regexp"
	"strings"
	"time"

	"github.com/antchfx/xpath"

	"verif/mc/doc"
	"verif/mc/eng"
	"verif/mc/explore"
	"verif/mc/ref"
	"verif/mc/report"
)

// c16Extra is set by the scheduler build (tag sched) to add the concurrent
// cache spaces.
var c16Extra func(tier string) []*explore.Space

// c16Post is the free-running -race pass of the cache scenarios (sched build).
var c16Post func(tier string, m *explore.Merged)

var reTokens = []string{"a", "b", ".", "[ab]", "[a", "^", "$", "(", ")", "*", "+", "?", "|", "\\"}

func reSubjects() []string {
	out := []string{""}
	var rec func(s string, n int)
	rec = func(s string, n int) {
		if s != "" {
			out = append(out, s)
		}
		if n == 3 {
			return
		}
		rec(s+"a", n+1)
		rec(s+"b", n+1)
	}
	rec("", 0)
	return out
}

var reRepls = []string{"", "x", "$1", "$2", "$0", "$1$1", "$10", "\\$1", "[$1]", "$1x", "${1}y", "$"}

func rePatterns(maxTok int) []string {
	var out []string
	var rec func(s string, n int)
	rec = func(s string, n int) {
		if n > 0 {
			out = append(out, s)
		}
		if n == maxTok {
			return
		}
		for _, t := range reTokens {
			rec(s+t, n+1)
		}
	}
	rec("", 0)
	return out
}

func quoteX(s string) string { return "'" + s + "'" }

// one regex case: evaluate expression on a one-text-node document whose text
// is the subject (context = that text node)
func c16Eval(s string, subject string) eng.Outcome {
	e, err, pan := eng.Compile(s, false, nil)
	if pan != nil {
		return *pan
	}
	if err != nil {
		return eng.Outcome{Kind: "compile-error", Msg: err.Error()}
	}
	t := doc.Build([]doc.Spec{{K: "e", N: "r", A: []doc.AttrS{{N: "s", V: subject}}, C: []doc.Spec{{K: "t", V: subject}}}})
	return eng.Evaluate(e, t, 1, false) // context: element r (string-value = subject)
}

func c16Fail(w *explore.Worker, space, s, subject, want, got, class string) {
	w.Violation(&report.Case{Kind: "regex", Expr: s, Extra: map[string]interface{}{"subject": subject}, Expected: want, Got: got, Class: class,
		Sig: "C16|" + space + "|" + class + "|" + shape(s), Weight: len(s)})
}

func matchSpace(maxTok int) *explore.Space {
	pats := rePatterns(maxTok)
	subs := reSubjects()
	return &explore.Space{
		Name: fmt.Sprintf("Match<=%d", maxTok), Desc: fmt.Sprintf("matches(): every pattern of <= %d regex tokens over %d tokens (incl. non-compiling ones) x %d subjects, pattern constant / computed, subject literal / context node", maxTok, len(reTokens), len(subs)),
		Size:  len(pats),
		Label: func(i int) string { return pats[i] },
		Run: func(i int, w *explore.Worker) {
			p := pats[i]
			re, rerr := regexp.Compile(p)
			w.RefOutcome(ternary(rerr == nil, "pattern-compiles", "pattern-invalid"))
			// constant pattern: Compile must fail iff the pattern does not compile
			cs := "matches(., " + quoteX(p) + ")"
			_, cerr, cpan := eng.Compile(cs, false, nil)
			w.Eval()
			switch {
			case cpan != nil:
				c16Fail(w, "Match", cs, "", "no panic", cpan.String(), "compile-panic")
			case rerr != nil && cerr == nil:
				c16Fail(w, "Match", cs, "", "compile-error (constant pattern does not compile)", "accepted", "bad-pattern-accepted")
			case rerr == nil && cerr != nil:
				c16Fail(w, "Match", cs, "", "accepted", "compile-error:"+cerr.Error(), "good-pattern-rejected")
			}
			forms := []string{"matches(., " + quoteX(p) + ")", "matches(@s, concat(" + quoteX(p) + ", ''))", "matches(string(.), " + quoteX(p) + ")", "*[matches(., " + quoteX(p) + ")]"}
			for _, sub := range subs {
				for fi, f := range forms {
					if fi == 3 {
						continue
					}
					w.Eval()
					o := c16Eval(f, sub)
					if rerr != nil {
						// constant: compile error; computed: deliberate evaluation error
						if o.Kind == "compile-error" || o.Kind == "panic-error" {
							w.EngOutcome("rejected")
							continue
						}
						w.EngOutcome(o.Kind)
						c16Fail(w, "Match", f, sub, "compile error or deliberate evaluation error", o.String(), "invalid-pattern-"+o.Kind)
						continue
					}
					w.NonTrivialCase(p)
					want := re.MatchString(sub)
					if o.Kind == "bool" && o.B == want {
						w.EngOutcome("agree")
						continue
					}
					w.EngOutcome("differ")
					c16Fail(w, "Match", f, sub, fmt.Sprintf("bool:%v", want), o.String(), "value")
				}
			}
			if i == len(pats)/2 {
				w.Sample(cs)
			}
		},
	}
}

func replaceSpace(maxTok int) *explore.Space {
	pats := rePatterns(maxTok)
	subs := reSubjects()
	return &explore.Space{
		Name: fmt.Sprintf("Replace<=%d", maxTok), Desc: fmt.Sprintf("replace(): every pattern of <= %d tokens x %d subjects x %d replacement strings", maxTok, len(subs), len(reRepls)),
		Size:  len(pats),
		Label: func(i int) string { return pats[i] },
		Run: func(i int, w *explore.Worker) {
			p := pats[i]
			re, rerr := regexp.Compile(p)
			w.RefOutcome(ternary(rerr == nil, "pattern-compiles", "pattern-invalid"))
			for _, r := range reRepls {
				f := "replace(., " + quoteX(p) + ", " + quoteX(r) + ")"
				for _, sub := range subs {
					w.Eval()
					o := c16Eval(f, sub)
					if rerr != nil {
						if o.Kind == "compile-error" || o.Kind == "panic-error" {
							w.EngOutcome("rejected")
							continue
						}
						w.EngOutcome(o.Kind)
						c16Fail(w, "Replace", f, sub, "compile error or deliberate evaluation error", o.String(), "invalid-pattern-"+o.Kind)
						continue
					}
					w.NonTrivialCase(p + r)
					want := re.ReplaceAllString(sub, ref.DollarBrace(r, re.NumSubexp()))
					if o.Kind == "str" && o.S == want {
						w.EngOutcome("agree")
						continue
					}
					w.EngOutcome("differ")
					c16Fail(w, "Replace", f, sub, fmt.Sprintf("str:%q", want), o.String(), "value")
				}
			}
			if i == len(pats)/2 {
				w.Sample("replace(., " + quoteX(p) + ", '$1')")
			}
		},
	}
}

// ---- sequential cache histories (explorer B on the real loadingCache) -----

type cacheModel struct {
	calls    map[string]int // loader calls per key
	failOnce bool
}

var cacheKeys = []string{"k1", "k2", "k3", "k4", "bad", "once"}

// cacheKeysBig is the alphabet for capacities 4 and 5 (enough distinct keys to
// overflow them and then come back to an old key).
var cacheKeysBig = []string{"k1", "k2", "k3", "k4", "k5", "k6", "bad"}

// cacheHistory replays a key sequence on a fresh cache of the given capacity
// and checks every invariant of the property after every get.
func cacheHistory(capacity int, seq []int) (fail string, states []string, hits int) {
	return cacheHistoryKeys(cacheKeys, capacity, seq)
}

func cacheHistoryKeys(cacheKeys []string, capacity int, seq []int) (fail string, states []string, hits int) {
	calls := map[string]int{}
	onceFailed := false
	loader := func(k interface{}) (interface{}, error) {
		key := k.(string)
		calls[key]++
		switch key {
		case "bad":
			return nil, errors.New("load failed")
		case "once":
			if !onceFailed {
				onceFailed = true
				return nil, errors.New("load failed once")
			}
		}
		return "val(" + key + ")", nil
	}
	c := xpath.NewLoadingCache(loader, capacity)
	for step, ki := range seq {
		key := cacheKeys[ki]
		before, _, _ := xpath.VerifCacheStats(c)
		wasIn := containsStr(before, key)
		callsBefore := calls[key]
		expectFail := key == "bad" || (key == "once" && !onceFailed)
		v, err := xpath.VerifCacheGet(c, key)
		after, capv, _ := xpath.VerifCacheStats(c)
		states = append(states, fmt.Sprintf("%d|%v|%v", capacity, after, onceFailed))
		pre := fmt.Sprintf("step %d get(%s): ", step+1, key)
		switch {
		case capv != capacity:
			return pre + "capacity changed", states, hits
		case expectFail && (err == nil || v != nil):
			return pre + fmt.Sprintf("a failing load returned (%v, %v)", v, err), states, hits
		case !expectFail && (err != nil || v != "val("+key+")"):
			return pre + fmt.Sprintf("returned (%v, %v), want val(%s)", v, err, key), states, hits
		case capacity > 0 && len(after) > capacity:
			return pre + fmt.Sprintf("cache holds %d entries, capacity %d", len(after), capacity), states, hits
		case expectFail && containsStr(after, key):
			return pre + "a failed load was remembered", states, hits
		case !wasIn && calls[key] == callsBefore:
			// covers "errors are re-loaded": a key that is not cached (never loaded,
			// evicted, or its load failed) must go to the loader again
			return pre + "the key was not cached, yet the loader was not called", states, hits
		}
		// Deliberately NOT demanded (the property does not state them, a correct
		// refactoring may change them): that a hit never calls the loader, that a
		// miss calls it exactly once, that a successful load is kept.
		if wasIn {
			hits++
		}
	}
	return "", states, hits
}

func containsStr(a []string, s string) bool {
	for _, x := range a {
		if x == s {
			return true
		}
	}
	return false
}

func cacheSeqSpace(maxLen int) *explore.Space {
	return cacheSeqSpaceOver("CacheSeq", cacheKeys, []int{0, 1, 2, 3}, maxLen)
}

func cacheSeqSpaceOver(name string, cacheKeys []string, caps []int, maxLen int) *explore.Space {
	k := len(cacheKeys)
	return &explore.Space{
		Name: fmt.Sprintf("%s<=%d", name, maxLen), Desc: fmt.Sprintf("every get sequence of length <= %d over the %d keys %v on caches of capacity %v; all invariants after every get", maxLen, k, cacheKeys, caps),
		Size:  len(caps) * k * k,
		Label: func(i int) string { return fmt.Sprintf("cap=%d first=%s,%s", caps[i/(k*k)], cacheKeys[(i/k)%k], cacheKeys[i%k]) },
		Run: func(item int, w *explore.Worker) {
			capacity := caps[item/(k*k)]
			first, second := (item/k)%k, item%k
			seen := map[string]bool{}
			for n := 2; n <= maxLen; n++ {
				total := 1
				for i := 2; i < n; i++ {
					total *= k
				}
				seq := make([]int, n)
				for code := 0; code < total; code++ {
					c := code
					seq[0], seq[1] = first, second
					for i := 2; i < n; i++ {
						seq[i] = c % k
						c /= k
					}
					w.Eval()
					fail, states, hits := cacheHistoryKeys(cacheKeys, capacity, seq)
					for _, s := range states {
						seen[s] = true
					}
					w.Count("transitions", int64(n))
					w.Count("traces_validated_against_impl", 1)
					if hits > 0 {
						w.NonTrivialCase(fmt.Sprint(capacity, seq))
					}
					if fail == "" {
						w.EngOutcome("agree")
						continue
					}
					w.EngOutcome("invariant-broken")
					var names []string
					for _, x := range seq {
						names = append(names, cacheKeys[x])
					}
					cls := fail[strings.Index(fail, ": ")+2:]
					if j := strings.IndexAny(cls, "0123456789("); j > 0 {
						cls = cls[:j]
					}
					w.Violation(&report.Case{Kind: "cacheseq", Expr: fmt.Sprintf("cap=%d: %s", capacity, strings.Join(names, " ")),
						Extra: map[string]interface{}{"cap": capacity, "seq": fmt.Sprint(seq), "keys": strings.Join(cacheKeys, ",")}, Expected: "all cache invariants after every get", Got: fail, Class: "cache",
						Sig: fmt.Sprintf("C16|CacheSeq|cap=%d|%s", capacity, cls), Weight: n})
				}
			}
			w.Count("states", int64(len(seen)))
			w.RefOutcome("n/a")
			if item == 0 {
				w.Sample("cap=1: k1 k2 k1 bad once once")
			}
		},
	}
}

// replace2Space: two replace() calls in ONE expression whose patterns have
// different numbers of groups and whose templates / subjects are the same
// literal text (nothing about one call's template may leak into the other).
func replace2Space() *explore.Space {
	pats := []string{"(a)", "(a)(b)", "a", "((a)(b))", "(a)(b)(c)(d)(e)(f)(g)(h)(i)(j)", "b"}
	tmpls := []string{"[$1]", "$2$1", "[$10]", "$1$1", "x", "$0", "[$3]"}
	subj := []string{"ab", "abcdefghijk", "[$1]", "aab"}
	return &explore.Space{
		Name: "Replace2", Desc: "concat(replace(s1,p1,r), '|', replace(s2,p2,r)) over 6 patterns (0..10 groups) x 7 templates x 4 subjects (one subject equal to a template)", Size: len(pats) * len(pats),
		Label: func(i int) string { return pats[i/len(pats)] + " / " + pats[i%len(pats)] },
		Run: func(i int, w *explore.Worker) {
			p1, p2 := pats[i/len(pats)], pats[i%len(pats)]
			re1, re2 := regexp.MustCompile(p1), regexp.MustCompile(p2)
			for _, r := range tmpls {
				for _, s1 := range subj {
					for _, s2 := range subj {
						for form := 0; form < 2; form++ {
							var f, want string
							if form == 0 {
								f = "concat(replace(" + quoteX(s1) + ", " + quoteX(p1) + ", " + quoteX(r) + "), '|', replace(" + quoteX(s2) + ", " + quoteX(p2) + ", " + quoteX(r) + "))"
								want = re1.ReplaceAllString(s1, ref.DollarBrace(r, re1.NumSubexp())) + "|" + re2.ReplaceAllString(s2, ref.DollarBrace(r, re2.NumSubexp()))
							} else {
								f = "concat(replace(" + quoteX(s1) + ", " + quoteX(p1) + ", " + quoteX(r) + "), '|', " + quoteX(r) + ", '|', replace(" + quoteX(r) + ", " + quoteX(p2) + ", " + quoteX(s2) + "))"
								want = re1.ReplaceAllString(s1, ref.DollarBrace(r, re1.NumSubexp())) + "|" + r + "|" + re2.ReplaceAllString(r, ref.DollarBrace(s2, re2.NumSubexp()))
							}
							w.Eval()
							w.NonTrivialCase(f)
							o := c16Eval(f, "")
							if o.Kind == "str" && o.S == want {
								w.EngOutcome("agree")
								continue
							}
							w.EngOutcome("differ")
							c16Fail(w, "Replace2", f, "", fmt.Sprintf("str:%q", want), o.String(), "value")
						}
					}
				}
			}
			w.RefOutcome("n/a")
			if i == 7 {
				w.Sample("concat(replace('ab', '" + p1 + "', '[$1]'), '|', replace('ab', '" + p2 + "', '[$1]'))")
			}
		},
	}
}

// smallCacheSpace swaps the package's RegexpCache for caches of capacity 0, 1
// and 2 with a counting loader and evaluates every sequence of matches() /
// replace() calls over 4 patterns (one of them invalid): results stay exact,
// the cache stays bounded, the invalid pattern is re-compiled each time.
func smallCacheSpace(maxLen int) *explore.Space {
	pats := []string{"a+", "b", "(a|b)b", "(a"}
	k := len(pats)
	caps := []int{0, 1, 2}
	return &explore.Space{
		Name: fmt.Sprintf("RegexCache<=%d", maxLen), Desc: fmt.Sprintf("RegexpCache replaced by capacity 0/1/2 caches with a counting loader: every sequence of <= %d regex evaluations over 4 patterns (one invalid)", maxLen),
		Size:  len(caps) * k,
		Label: func(i int) string { return fmt.Sprintf("cap=%d first=%s", caps[i/k], pats[i%k]) },
		Run: func(item int, w *explore.Worker) {
			capacity, first := caps[item/k], item%k
			saved := xpath.RegexpCache
			defer func() { xpath.RegexpCache = saved }()
			t := doc.Build([]doc.Spec{{K: "t", V: "aab"}})
			for n := 1; n <= maxLen; n++ {
				total := 1
				for i := 1; i < n; i++ {
					total *= k
				}
				for code := 0; code < total; code++ {
					loads := map[string]int{}
					c := xpath.NewLoadingCache(func(key interface{}) (interface{}, error) {
						loads[key.(string)]++
						return regexp.Compile(key.(string))
					}, capacity)
					xpath.RegexpCache = c
					seq := make([]int, n)
					seq[0] = first
					cc := code
					for i := 1; i < n; i++ {
						seq[i] = cc % k
						cc /= k
					}
					w.Eval()
					w.Count("transitions", int64(n))
					w.Count("traces_validated_against_impl", 1)
					fail := ""
					for step, pi := range seq {
						p := pats[pi]
						e, err := xpath.Compile("matches(., concat('" + p + "', ''))") // computed pattern: goes through the cache at evaluation
						if err != nil {
							fail = "compile: " + err.Error()
							break
						}
						o := eng.Evaluate(e, t, 1, false)
						keys, _, _ := xpath.VerifCacheStats(c)
						re, rerr := regexp.Compile(p)
						switch {
						case rerr != nil && o.Kind != "panic-error":
							fail = fmt.Sprintf("step %d: invalid pattern gave %s", step+1, o)
						case rerr == nil && (o.Kind != "bool" || o.B != re.MatchString("aab")):
							fail = fmt.Sprintf("step %d: matches('aab','%s') = %s", step+1, p, o)
						case capacity > 0 && len(keys) > capacity:
							fail = fmt.Sprintf("step %d: cache holds %d entries, capacity %d", step+1, len(keys), capacity)
						case containsStr(keys, "(a"):
							fail = fmt.Sprintf("step %d: failed pattern remembered", step+1)
						}
						if fail != "" {
							break
						}
					}
					if n > 1 {
						w.NonTrivialCase(fmt.Sprint(capacity, seq))
					}
					if fail == "" {
						w.EngOutcome("agree")
						continue
					}
					w.EngOutcome("broken")
					w.Violation(&report.Case{Kind: "item", Expr: fmt.Sprintf("cap=%d seq=%v", capacity, seq), Expected: "exact results, bounded cache", Got: fail, Class: "regex-cache",
						Sig: fmt.Sprintf("C16|RegexCache|cap=%d|%s", capacity, fail[strings.Index(fail, ":")+1:]), Weight: n})
				}
			}
			w.RefOutcome("n/a")
		},
	}
}

// perNodeSpace: the pattern (and the subject) is computed from the context
// node, and differs between the candidates of one evaluation: nothing about a
// pattern may be remembered from one node to the next.
func perNodeSpace(nrules int) *explore.Space {
	const missing = "\x00missing" // the r element has no s attribute: the subject is an empty node-set, i.e. ''
	subs := []string{"a", "b", "ab", "", missing}
	pats := []string{"a", "^b", "b$", "a+b", "(a|b)b", "(", "x", "^$", "b*", "(a)(b)"}
	combos := len(subs) * len(pats)
	total := 1
	for i := 0; i < nrules; i++ {
		total *= combos
	}
	exprs := []string{"//r[matches(@s, string(@p))]", "//r[matches(@s, concat(@p, ''))]", "//r[not(matches(string(@s), string(@p)))]",
		"//r[replace(@s, string(@p), 'z') != @s]", "//r[matches(@s, string(../r[1]/@p))]",
		// one replacement text with group references, patterns whose group count changes from candidate to candidate
		"//r[replace(@s, string(@p), '[$1]') != @s]", "//r[replace(@s, string(@p), '$1$2') = '']",
		// $n directly followed by a word character: decided only for candidates whose pattern HAS group n
		// (Go reads "$1x" as a group NAMED 1x when nothing rewrites it; the property fixes "$n = group n" for existing groups)
		"//r[contains(replace(@s, string(@p), '[$1x]'), 'x]')]", "//r[contains(replace(@s, string(@p), '$1$2x'), 'bx')]"}
	return &explore.Space{
		Name: fmt.Sprintf("RegexPerNode-%d", nrules), Desc: fmt.Sprintf("documents with %d <r s= p=> elements over %d subjects x %d patterns each (one invalid): predicates whose pattern is computed from the candidate", nrules, len(subs), len(pats)),
		Size:  total,
		Label: func(i int) string { return fmt.Sprintf("rules #%d", i) },
		Run: func(item int, w *explore.Worker) {
			var rules []doc.Spec
			var ss, ps []string
			var miss []bool
			c := item
			for i := 0; i < nrules; i++ {
				k := c % combos
				c /= combos
				sv, pv := subs[k%len(subs)], pats[k/len(subs)]
				ps = append(ps, pv)
				if sv == missing {
					ss, miss = append(ss, ""), append(miss, true)
					rules = append(rules, doc.Spec{K: "e", N: "r", A: []doc.AttrS{{N: "p", V: pv}}})
				} else {
					ss, miss = append(ss, sv), append(miss, false)
					rules = append(rules, doc.Spec{K: "e", N: "r", A: []doc.AttrS{{N: "s", V: sv}, {N: "p", V: pv}}})
				}
			}
			t := doc.Build([]doc.Spec{{K: "e", N: "d", C: rules}})
			// arena index of rule i (each r element is followed by its attributes)
			var ruleIdx []int
			for k := range t.Nodes {
				if t.Nodes[k].Kind == doc.Elem && t.Nodes[k].Local == "r" {
					ruleIdx = append(ruleIdx, k)
				}
			}
			idx := func(i int) int { return ruleIdx[i] }
			for ei, es := range exprs {
				w.Eval()
				// reference: per rule verdict with Go regexp; an invalid pattern that is
				// reached makes the whole evaluation a deliberate error
				var want []int
				unclear := map[int]bool{}
				invalid := false
				for i := 0; i < nrules && !invalid; i++ {
					p := ps[i]
					if ei == 4 {
						p = ps[0]
					}
					re, err := regexp.Compile(p)
					if err != nil {
						invalid = true
						break
					}
					var keep bool
					switch ei {
					case 0, 1, 4:
						keep = re.MatchString(ss[i])
					case 2:
						keep = !re.MatchString(ss[i])
					case 3:
						// '' != (empty node-set) is false whatever the left side
						keep = !miss[i] && re.ReplaceAllString(ss[i], "z") != ss[i]
					case 5:
						keep = !miss[i] && re.ReplaceAllString(ss[i], "[${1}]") != ss[i]
					case 6:
						keep = re.ReplaceAllString(ss[i], "${1}${2}") == ""
					case 7:
						keep = strings.Contains(re.ReplaceAllString(ss[i], "[${1}x]"), "x]")
						if re.NumSubexp() < 1 {
							unclear[idx(i)] = true
						}
					case 8:
						keep = strings.Contains(re.ReplaceAllString(ss[i], "${1}${2}x"), "bx")
						if re.NumSubexp() < 2 {
							unclear[idx(i)] = true
						}
					}
					if keep {
						want = append(want, idx(i))
					}
				}
				e, err, pan := eng.Compile(es, false, nil)
				if err != nil || pan != nil {
					w.InternalError("per-node regex expression does not compile: " + es)
					return
				}
				o := eng.Select(e, t, 0, false)
				w.RefOutcome(ternary(invalid, "invalid-pattern", "valid"))
				if len(want) > 0 && len(want) < nrules {
					w.NonTrivialCase(fmt.Sprint(item, ei))
				}
				ok := false
				if invalid {
					ok = o.Kind == "panic-error"
				} else {
					ok = o.Kind == "nodes" && eng.EqInts(dropInts(o.Nodes, unclear), dropInts(want, unclear))
				}
				if ok {
					w.EngOutcome("agree")
					continue
				}
				w.EngOutcome("differ")
				ec := &evalCase{Expr: es, T: t, Ctx: 0, Op: "select", Mode: "seq"}
				exp := fmt.Sprintf("nodes:%v", append([]int{}, want...))
				if invalid {
					exp = "^panic-error"
				}
				c := ec.toCase("eval", exp, o.String(), "per-node-pattern", "C16|RegexPerNode|"+es)
				if len(unclear) > 0 {
					c.Kind = "item" // replayed by re-running the item (the verdict ignores some candidates)
					c.Note = fmt.Sprintf("candidates whose pattern lacks the referenced group are not judged: %v", unclear)
				}
				w.Violation(c)
			}
			if item == total/3 {
				w.Sample(exprs[0] + " on " + t.String())
			}
		},
	}
}

func dropInts(a []int, drop map[int]bool) []int {
	out := []int{}
	for _, x := range a {
		if !drop[x] {
			out = append(out, x)
		}
	}
	return out
}

func init() {
	report.RegisterReplayer("regex", func(c *report.Case) (string, bool, error) {
		sub, _ := c.Extra["subject"].(string)
		o := c16Eval(c.Expr, sub)
		obs := o.String()
		if o.Kind == "compile-error" {
			obs = "compile-error:" + o.Msg
		}
		if strings.HasPrefix(c.Expected, "compile error or deliberate") {
			return obs, o.Kind == "compile-error" || o.Kind == "panic-error", nil
		}
		if strings.HasPrefix(c.Expected, "compile-error") {
			return obs, o.Kind == "compile-error", nil
		}
		if c.Expected == "accepted" {
			return obs, o.Kind != "compile-error", nil
		}
		return obs, obs == c.Expected, nil
	})
	report.RegisterReplayer("cacheseq", func(c *report.Case) (string, bool, error) {
		var seq []int
		for _, f := range strings.Fields(strings.Trim(c.Extra["seq"].(string), "[]")) {
			var n int
			fmt.Sscan(f, &n)
			seq = append(seq, n)
		}
		keys := cacheKeys
		if ks, ok := c.Extra["keys"].(string); ok && ks != "" {
			keys = strings.Split(ks, ",")
		}
		capv := 0
		switch v := c.Extra["cap"].(type) {
		case float64:
			capv = int(v)
		case int:
			capv = v
		}
		fail, _, _ := cacheHistoryKeys(keys, capv, seq)
		if fail == "" {
			return "all invariants hold", true, nil
		}
		return fail, false, nil
	})
	explore.Register(&explore.Property{
		ID: "C16", Level: "model_checking",
		Rule: "semantics: matches()/replace() for every pattern of <= 4 (thorough: 5) regex tokens over 14 tokens (including non-compiling patterns) x 15 subjects x 12 replacement strings, pattern constant or computed, compared with Go regexp (a constant bad pattern must be a compile error, a computed one a deliberate evaluation error); plus predicates whose pattern and subject are computed from each candidate node on documents with 2 (thorough: 3) rule elements over all (subject, pattern) combinations. cache, sequential: every get sequence of length <= 6 (thorough: 8) over 6 keys (one always failing, one failing once) on capacities 0..3 is replayed on a fresh loadingCache; after EVERY get: value exact, |entries| <= capacity, failed loads not remembered, uncached keys (incl. failed ones) go to the loader again (states = distinct (capacity, key set, fail-once flag), transitions = gets). cache, concurrent (explorer C): every interleaving of 2-3 goroutines x 1-2 gets over colliding keys up to a preemption bound, scheduling points at every statement of the package and every lock operation (blocking modelled), size invariant at every scheduling point, exactness at every return; plus a free-running -race pass; non-trivial = sequence with a cache hit / compiling pattern; distinct = distinct sequences / patterns",
		Assumptions:    []string{"Go regexp is the specification of matches/replace", "statement-granularity interleavings under sequential consistency; plain-memory races delegated to the -race pass", "bounded sequence length, capacities 0..3, 2-3 goroutines"},
		Budget:         budget(90*time.Second, 14*time.Minute),
		MinRefOutcomes: 1,
		WorkerProcs:    1,
		Post: func(tier string, m *explore.Merged) {
			if c16Post != nil {
				c16Post(tier, m)
			}
		},
		Spaces: func(tier string) []*explore.Space {
			sp := []*explore.Space{matchSpace(4), replaceSpace(3), replace2Space(), perNodeSpace(2), cacheSeqSpace(6), cacheSeqSpaceOver("CacheSeqBig", cacheKeysBig, []int{4, 5}, 6), smallCacheSpace(4)}
			if tier == "thorough" {
				sp = []*explore.Space{matchSpace(5), replaceSpace(4), replace2Space(), perNodeSpace(3), cacheSeqSpace(8), cacheSeqSpaceOver("CacheSeqBig", cacheKeysBig, []int{4, 5, 6}, 8), smallCacheSpace(6)}
			}
			if c16Extra != nil {
				sp = append(sp, c16Extra(tier)...)
			}
			return sp
		},
	})
}

package props

import (
	"strings"
	"time"

	"verif/mc/doc"
	"verif/mc/eng"
	"verif/mc/explore"
	"verif/mc/gen"
	"verif/mc/ref"
)

// stepForms: every axis x every node test, plus the abbreviated forms.
func stepForms(tests []string, abbrev bool) []gen.Step {
	var out []gen.Step
	for _, ax := range gen.Axes {
		for _, t := range tests {
			out = append(out, gen.St(ax, t))
		}
	}
	if abbrev {
		out = append(out, gen.Dot(), gen.DotDot(), gen.At("a"), gen.At("*"), gen.Ch("a"), gen.Ch("*"), gen.Ch("text()"), gen.Ch("node()"))
	}
	return out
}

var allTests = []string{"a", "b", "*", "node()", "text()", "comment()"}

// pathsN builds every path of exactly n steps over forms, with separators
// {/, //} between steps and the prefixes {relative, /, //}.
func pathsN(forms []gen.Step, n int) []*gen.Path {
	var out []*gen.Path
	var rec func(steps []gen.Step, k int)
	rec = func(steps []gen.Step, k int) {
		if k == n {
			for _, pre := range []string{"", "/", "//"} {
				p := &gen.Path{}
				switch pre {
				case "/":
					p.Abs = true
				case "//":
					p.Abs = true
					p.Steps = append(p.Steps, gen.DSlash())
				}
				p.Steps = append(p.Steps, steps...)
				out = append(out, p)
			}
			return
		}
		for _, f := range forms {
			if k == 0 {
				rec(append(append([]gen.Step{}, steps...), f), k+1)
				continue
			}
			for _, sep := range []string{"/", "//"} {
				ns := append([]gen.Step{}, steps...)
				if sep == "//" {
					ns = append(ns, gen.DSlash())
				}
				ns = append(ns, f)
				rec(ns, k+1)
			}
		}
	}
	rec(nil, 0)
	return out
}

func stridePaths(p []*gen.Path, k int) []*gen.Path {
	var out []*gen.Path
	for i := 0; i < len(p); i += k {
		out = append(out, p[i])
	}
	return out
}

// threeStep: every 3-step path over the 12 axes with tests {node(), a} joined
// by '/', relative and absolute-with-//.
func threeStep() []*gen.Path {
	forms := stepForms([]string{"node()", "a"}, false)
	var out []*gen.Path
	for _, a := range forms {
		for _, b := range forms {
			for _, c := range forms {
				out = append(out, relPath(a, b, c), gen.AbsP(gen.DSlash(), a, b, c))
			}
		}
	}
	return out
}

// evalCfg says how a list of expressions is explored.
type evalCfg struct {
	Prop   string
	Ops    []string
	Mode   string // set | seq
	WithNS bool
	NS     map[string]string
	NavNS  bool
	// Base, if non-nil, gives for expression i the host expression without
	// its predicates; a case is then non-trivial when the predicate keeps a
	// strict non-empty subset of the base candidates.
	Base func(i int) gen.Expr
	// Skip, if non-nil, excludes (document, context, reference value) cases
	// that lie outside the property's fragment.
	Skip func(t *doc.Tree, ctx int, want ref.Value) bool
	// NonTrivial, if non-nil, replaces the default non-triviality rule.
	NonTrivial func(env *ref.Env, ctx int, ast gen.Expr, want ref.Value) bool
	// Env, if non-nil, adjusts the reference environment (fragment flags).
	Env func(env *ref.Env)
	// SigOf overrides the default signature skeleton.
	SigOf func(ast gen.Expr) string
}

// pathSpace explores paths x documents x all context nodes x ops.
func pathSpace(prop, name, desc string, paths []*gen.Path, docs func() []*doc.Tree, ops []string, mode string) *explore.Space {
	exprs := make([]gen.Expr, len(paths))
	for i, p := range paths {
		exprs[i] = p
	}
	return exprSpace(name, desc, exprs, docs, &evalCfg{Prop: prop, Ops: ops, Mode: mode})
}

// exprSpace explores expressions x documents x all context nodes x ops.
func exprSpace(name, desc string, exprs []gen.Expr, docs func() []*doc.Tree, cfg *evalCfg) *explore.Space {
	strs := make([]string, len(exprs))
	for i, p := range exprs {
		strs[i] = gen.Render(p)
	}
	return &explore.Space{
		Name: name, Desc: desc, Size: len(exprs),
		Label: func(i int) string { return strs[i] },
		Run: func(i int, w *explore.Worker) {
			var base gen.Expr
			if cfg.Base != nil {
				base = cfg.Base(i)
			}
			runExprOnDocs(cfg, w, strs[i], exprs[i], base, docs())
		},
	}
}

// runExprOnDocs compiles once and evaluates on every (document, context).
func runExprOnDocs(cfg *evalCfg, w *explore.Worker, s string, ast, base gen.Expr, docs []*doc.Tree) {
	runExprOnCtxs(cfg, w, s, ast, base, docs, nil)
}

// runExprOnCtxs is runExprOnDocs restricted to the given context nodes
// (nil = every node of each document).
func runExprOnCtxs(cfg *evalCfg, w *explore.Worker, s string, ast, base gen.Expr, docs []*doc.Tree, only []int) {
	prop, ops, mode, withNS, ns, navNS := cfg.Prop, cfg.Ops, cfg.Mode, cfg.WithNS, cfg.NS, cfg.NavNS
	skel := gen.Skeleton(ast)
	if cfg.SigOf != nil {
		skel = cfg.SigOf(ast)
	}
	e, err, pan := eng.Compile(s, withNS, ns)
	if pan != nil || err != nil {
		got := ""
		if pan != nil {
			got = "compile-" + pan.String()
		} else {
			got = "compile-error:" + err.Error()
		}
		ec := &evalCase{Expr: s, AST: ast, WithNS: withNS, NS: ns, NavNS: navNS, T: docs[0], Ctx: 0, Op: ops[0], Mode: mode}
		w.Eval()
		w.Violation(ec.toCase("eval", "^nodes: || ^bool: || ^num: || ^str:", got, "compile", prop+"|"+skel+"|compile-rejected"))
		return
	}
	w.Sample(s + " on " + docs[len(docs)/2].String())
	hist := &histTracker{}
	for _, t := range docs {
		env := &ref.Env{T: t, NSMap: nsIf(withNS, ns), NavHasURI: navNS}
		if cfg.Env != nil {
			cfg.Env(env)
		}
		for ctx := range t.Nodes {
			if only != nil && !containsInt(only, ctx) {
				continue
			}
			want := ref.Eval(env, ctx, ast)
			if want.T == ref.TUndef {
				w.Count("skipped_undefined", 1)
				continue
			}
			if cfg.Skip != nil && cfg.Skip(t, ctx, want) {
				w.Count("skipped_outside_fragment", 1)
				continue
			}
			nontriv := false
			switch want.T {
			case ref.TNodeSet:
				nontriv = len(want.NS) > 0
				if base != nil {
					b := ref.Eval(env, ctx, base)
					nontriv = len(want.NS) > 0 && len(want.NS) < len(b.NS)
				}
				w.RefOutcome(ternary(nontriv, "nontrivial", "trivial"))
			default:
				nontriv = true
				if cfg.NonTrivial != nil {
					nontriv = cfg.NonTrivial(env, ctx, ast, want)
				}
				rs := want.String()
				if len(rs) > 24 {
					rs = rs[:24]
				}
				w.RefOutcome(rs)
			}
			for _, op := range ops {
				w.Eval()
				o := runOp(e, t, ctx, navNS, op)
				if nontriv {
					w.NonTrivialCase(s)
				}
				if eng.MatchesMode(o, want, mode) {
					w.EngOutcome("agree")
					hist.note(t, ctx, op)
					continue
				}
				// re-run on a fresh compile before attributing
				class := ""
				if o.Kind == "nodes" && want.T == ref.TNodeSet {
					class = eng.DiffClass(modeNodes(o.Nodes, mode), want.NS)
				} else if o.IsPanic() || o.Kind == "hang" || o.Kind == "badtype" || o.Kind == "nil" {
					class = o.Kind
				} else {
					class = "value"
				}
				if e2, err2, _ := eng.Compile(s, withNS, ns); err2 == nil && e2 != nil {
					o2 := runOp(e2, t, ctx, navNS, op)
					if eng.MatchesMode(o2, want, mode) {
						class = "history:" + class
					}
				}
				w.EngOutcome(class)
				ec := &evalCase{Expr: s, AST: ast, WithNS: withNS, NS: ns, NavNS: navNS, T: t, Ctx: ctx, Op: op, Mode: mode}
				sig := prop + "|" + skel + "|ctx=" + ctxKind(t, ctx) + "|" + op + "|" + class
				vc := ec.toCase("eval", wantString(want, mode), normalise(o, mode), class, sig)
				if strings.HasPrefix(class, "history:") {
					// only wrong on the re-used compiled expression: replay with the
					// evaluations that preceded it
					hist.attach(vc)
				}
				w.Violation(vc)
				hist.note(t, ctx, op)
			}
		}
	}
}

func containsInt(a []int, x int) bool {
	for _, v := range a {
		if v == x {
			return true
		}
	}
	return false
}

func modeNodes(ns []int, mode string) []int {
	switch mode {
	case "set":
		return eng.AsSet(ns)
	case "bag":
		return eng.SortedBag(ns)
	}
	return ns
}

func wantString(v ref.Value, mode string) string {
	return v.String()
}

func nsIf(with bool, ns map[string]string) map[string]string {
	if !with {
		return nil
	}
	return ns // CompileWithNS(expr, nil) is documented to behave like Compile
}

func ternary(c bool, a, b string) string {
	if c {
		return a
	}
	return b
}

func ternaryInts(c bool, a, b []int) []int {
	if c {
		return a
	}
	return b
}

func init() {
	explore.Register(&explore.Property{
		ID: "C01", Level: "exploration",
		Rule: "every predicate-free path of a named finite slice (12 axes x 6 node tests + abbreviations, separators / and //, relative and absolute) is evaluated by Select and Evaluate on every document of the tree universe from every context node (root, elements, attributes, text, comments) and compared as a set of node identities with the reference XPath 1.0 denotation; a case is non-trivial when the reference denotation is non-empty; distinct = distinct path expressions with at least one non-trivial case",
		Assumptions: []string{"hand-written reference evaluator (self-checked by axis partition laws)", "lawful NodeNavigator (doc.Nav)", "bounds: documents with <= N content nodes over names {a,b}, attributes {a,x}"},
		Budget:         budget(200*time.Second, 30*time.Minute),
		MinRefOutcomes: 2,
		Spaces: func(tier string) []*explore.Space {
			forms := stepForms(allTests, true)
			both := []string{"select", "evaluate"}
			if tier == "thorough" {
				red := stepForms([]string{"a", "*", "node()"}, false)
				cf := stepForms([]string{"a", "A", "ab", "*"}, true)
				cf = append(cf, gen.At("A"), gen.At("ab"), gen.Ch("A"), gen.Ch("ab"))
				return []*explore.Space{
					pathSpace("C01", "S2xCase3", "2-step paths over name tests {a, A, ab} x documents whose names differ only in letter case or extend each other", pathsN(cf, 2), func() []*doc.Tree {
						return trees("Case3", &doc.Universe{MinN: 0, MaxN: 3, Names: []string{"a", "A", "ab"}, NoComment: true, Attr: "rule", AttrNames: []string{"a", "A", "ab"}, Vals: []string{"1"}})
					}, both, "set"),
					pathSpace("C01", "S1xT4", "1-step paths x T(<=4)", pathsN(forms, 1), func() []*doc.Tree { return uniT(4) }, both, "set"),
					pathSpace("C01", "S2xT4", "2-step paths x T(<=4)", pathsN(forms, 2), func() []*doc.Tree { return uniT(4) }, both, "set"),
					pathSpace("C01", "S3xT3", "3-step paths over tests {a,*,node()} x T(<=3)", pathsN(red, 3), func() []*doc.Tree { return uniT(3) }, []string{"select"}, "set"),
					pathSpace("C01", "S1xT5", "1-step paths x T(=5)", pathsN(forms, 1), func() []*doc.Tree { return uniTExact(5) }, both, "set"),
					pathSpace("C01", "S2xDeep7", "2-step paths x spine documents of depth 4..7", pathsN(forms, 2), func() []*doc.Tree { return uniDeep(7) }, []string{"select"}, "set"),
				}
			}
			caseForms := stepForms([]string{"a", "A", "ab", "*"}, false)
			caseForms = append(caseForms, gen.At("a"), gen.At("A"), gen.At("ab"), gen.Ch("a"), gen.Ch("A"), gen.Ch("ab"))
			caseDocs := func() []*doc.Tree {
				return trees("Case3", &doc.Universe{MinN: 0, MaxN: 3, Names: []string{"a", "A", "ab"}, NoComment: true,
					Attr: "rule", AttrNames: []string{"a", "A", "ab"}, Vals: []string{"1"}})
			}
			caseSpaces := []*explore.Space{
				pathSpace("C01", "S1xCase3", "1-step paths over name tests {a, A, ab} x documents whose names differ only in letter case or extend each other", pathsN(caseForms, 1), caseDocs, both, "set"),
				pathSpace("C01", "S2/5xCase3", "fixed stratum (every 5th) of 2-step paths over name tests {a, A, ab} x the same documents", stridePaths(pathsN(caseForms, 2), 5), caseDocs, []string{"select"}, "set"),
			}
			return append([]*explore.Space{
				pathSpace("C01", "S1xT3", "1-step paths x T(<=3)", pathsN(forms, 1), func() []*doc.Tree { return uniT(3) }, both, "set"),
				pathSpace("C01", "S2xT3", "2-step paths x T(<=3)", pathsN(forms, 2), func() []*doc.Tree { return uniT(3) }, both, "set"),
				pathSpace("C01", "S3qxT3", "3-step paths over 12 axes x tests {node(), a}, '/' separators, relative and after // x T(<=3)", threeStep(), func() []*doc.Tree { return uniT(3) }, []string{"select"}, "set"),
				pathSpace("C01", "S1xDeep6", "1-step paths x spine documents of depth 4..6", pathsN(forms, 1), func() []*doc.Tree { return uniDeep(6) }, both, "set"),
				pathSpace("C01", "S2/8xDeep6", "fixed stratum (every 8th) of 2-step paths x spine documents of depth 4..6", stridePaths(pathsN(forms, 2), 8), func() []*doc.Tree { return uniDeep(6) }, []string{"select"}, "set"),
			}, caseSpaces...)
		},
	})
}

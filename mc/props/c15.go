package props

import (
	"fmt"
	"strings"
	"time"

	"verif/mc/doc"
	"verif/mc/eng"
	"verif/mc/explore"
	"verif/mc/gen"
	"verif/mc/ref"
	"verif/mc/report"
)

// allKinds is a 7-content-node document with every node kind.
var allKinds = doc.Build([]doc.Spec{
	{K: "c", V: "top"},
	{K: "e", N: "a", A: []doc.AttrS{{N: "x", V: "1"}, {N: "y", V: "é中"}}, C: []doc.Spec{
		{K: "t", V: "12"}, {K: "e", N: "b", C: []doc.Spec{{K: "t", V: "x"}}}, {K: "c", V: "c"}, {K: "e", N: "a", A: []doc.AttrS{{N: "x", V: ""}}},
	}},
})

func c15Docs(n int) []*doc.Tree {
	out := []*doc.Tree{emptyDoc, allKinds}
	return append(out, uniT(n)[1:]...)
}

// c15SizeDocs: a chain of 24 and of 40 nested a elements (attribute a on every
// third, a leaf b with text at the bottom), and one parent with 70 children.
func c15SizeDocs() []*doc.Tree {
	uniMu.Lock()
	if t, ok := uniCache["C15Size"]; ok {
		uniMu.Unlock()
		return t
	}
	uniMu.Unlock()
	var out []*doc.Tree
	for _, depth := range []int{24, 40} {
		s := doc.Spec{K: "e", N: "b", C: []doc.Spec{{K: "t", V: "1"}}}
		for i := 0; i < depth; i++ {
			s = doc.Spec{K: "e", N: "a", A: attrIf(i%3 == 0, "a", []string{"1", "2", "x"}[i%3]), C: []doc.Spec{s}}
			if i%7 == 3 {
				s.C = append(s.C, doc.Spec{K: "e", N: "b"})
			}
		}
		out = append(out, doc.Build([]doc.Spec{s}))
	}
	var kids []doc.Spec
	for i := 0; i < 70; i++ {
		kids = append(kids, doc.Spec{K: "e", N: []string{"a", "b"}[i%2], A: attrIf(i%3 == 0, "a", "1")})
	}
	out = append(out, doc.Build([]doc.Spec{{K: "e", N: "a", C: kids}}))
	uniMu.Lock()
	uniCache["C15Size"] = out
	uniMu.Unlock()
	return out
}

// safeRun is the C15 oracle for one (expression, document, context, op).
func c15Check(w *explore.Worker, space, s string, skel string, docs []*doc.Tree, both bool) {
	e, err, pan := eng.Compile(s, false, nil)
	if pan != nil {
		w.Eval()
		w.Violation(&report.Case{Kind: "total", Expr: s, Expected: "no panic escapes Compile", Got: pan.String(), Class: "compile-panic", Sig: "C15|" + space + "|compile-panic|" + skel, Weight: len(s)})
		return
	}
	if err != nil {
		w.Count("rejected_by_compile", 1)
		return
	}
	w.Sample(s)
	ops := []string{"select", "evaluate"}
	for _, t := range docs {
		for ctx := range t.Nodes {
			for _, op := range ops {
				w.Eval()
				o := runOp(e, t, ctx, false, op)
				cls := o.Kind
				switch o.Kind {
				case "nodes", "bool", "num", "str":
					w.EngOutcome(o.Kind)
					w.NonTrivialCase(s)
					continue
				case "panic-error":
					// deliberate, package-raised error value: allowed
					w.EngOutcome("deliberate-error")
					w.NonTrivialCase(s)
					continue
				case "nil":
					if op == "select" {
						continue
					}
				}
				w.EngOutcome(cls)
				msg := o.Msg
				if i := strings.IndexAny(msg, "[0123456789"); i > 0 && o.Kind == "panic-runtime" {
					msg = msg[:i]
				}
				ec := &evalCase{Expr: s, T: t, Ctx: ctx, Op: op, Mode: "seq"}
				w.Violation(ec.toCase("c15", "a value or a deliberate error value", o.String(), cls, "C15|"+space+"|"+cls+"|"+msg+"|"+skel))
				_ = both
			}
		}
	}
}

func init() {
	// the C15 expectation of an "eval" case is a conjunction: not a runtime
	// panic, not a hang, not an undocumented result type
	report.RegisterReplayer("c15", func(c *report.Case) (string, bool, error) {
		t := doc.Build(c.Tree)
		e, err, pan := eng.Compile(c.Expr, false, nil)
		if pan != nil {
			return "compile-" + pan.String(), false, nil
		}
		if err != nil {
			return "compile-error:" + err.Error(), true, nil
		}
		o := runOp(e, t, c.Ctx, false, c.Op)
		switch o.Kind {
		case "nodes", "bool", "num", "str", "panic-error":
			return o.String(), true, nil
		case "nil":
			return o.String(), c.Op == "select", nil
		}
		return o.String(), false, nil
	})
}

func c15Args() []gen.Expr {
	return []gen.Expr{
		gen.N(1), gen.N(0), gen.B("div", gen.N(0), gen.N(0)), gen.B("div", gen.N(1), gen.N(0)), &gen.Neg{E: gen.N(2)},
		gen.S("a"), gen.S(""), gen.S("1"), gen.S("é"), gen.S("中a"), gen.S("("), gen.F("true"), gen.F("false"),
		relPath(gen.Ch("nosuch")), relPath(gen.Ch("*")), relPath(gen.Dot()), relPath(gen.At("*")), gen.AbsP(gen.DSlash(), gen.Ch("node()")),
		gen.F("count", relPath(gen.Ch("*"))), gen.F("string", relPath(gen.Dot())), gen.F("not", relPath(gen.Ch("a"))), gen.F("round", gen.N(1.5)),
		gen.F("reverse", relPath(gen.Ch("*"))), gen.F("position"), gen.F("last"), &gen.Group{E: relPath(gen.Ch("*"))}, gen.B("|", relPath(gen.Ch("a")), relPath(gen.Ch("b"))),
	}
}

func c15Spaces(tier string) []*explore.Space {
	args := c15Args()
	nd := 1
	if tier == "thorough" {
		nd = 2
	}
	docs := func() []*doc.Tree { return c15Docs(nd) }
	// (b1) every function x arity 0..max+1 x argument type tuples
	type fcase struct {
		name string
		n    int
	}
	var fitems []fcase
	for name, ar := range ref.Arity {
		max := ar[1]
		if max < 0 || max > 3 {
			max = 3
		}
		for n := 0; n <= max+1 && n <= 4; n++ {
			fitems = append(fitems, fcase{name, n})
		}
	}
	// deterministic order
	for i := 1; i < len(fitems); i++ {
		for j := i; j > 0 && (fitems[j-1].name > fitems[j].name || fitems[j-1].name == fitems[j].name && fitems[j-1].n > fitems[j].n); j-- {
			fitems[j-1], fitems[j] = fitems[j], fitems[j-1]
		}
	}
	fnSpace := &explore.Space{
		Name: "Fn", Desc: "every function of the table x arity 0..max+1 x every argument tuple over 27 typed arguments (incl. non-ASCII strings) (numbers incl. NaN/Inf, strings, booleans, empty/non-empty node-sets, nested calls of every result type); bare and inside a predicate",
		Size:  len(fitems),
		Label: func(i int) string { return fmt.Sprintf("%s/%d", fitems[i].name, fitems[i].n) },
		Run: func(i int, w *explore.Worker) {
			fc := fitems[i]
			alpha := args
			if fc.n >= 3 {
				alpha = args[:0:0]
				for k, a := range args {
					if k%2 == 0 || k >= 18 || k == 9 || k == 11 {
						alpha = append(alpha, a)
					}
				}
			}
			if fc.n == 4 {
				alpha = []gen.Expr{gen.N(1), gen.S("a"), gen.F("true"), relPath(gen.Ch("*")), relPath(gen.Ch("nosuch"))}
			}
			total := 1
			for k := 0; k < fc.n; k++ {
				total *= len(alpha)
			}
			for code := 0; code < total; code++ {
				c := code
				call := &gen.Call{Name: fc.name}
				for k := 0; k < fc.n; k++ {
					call.Args = append(call.Args, alpha[c%len(alpha)])
					c /= len(alpha)
				}
				s := gen.Render(call)
				c15Check(w, "Fn", s, gen.Skeleton(call), docs(), true)
				if fc.n <= 2 {
					p := relPath(gen.Ch("*", call))
					c15Check(w, "Fn", gen.Render(p), gen.Skeleton(p), docs(), true)
				}
			}
			w.RefOutcome("n/a")
		},
	}
	// (b2) every binary operator x every ordered pair of typed operands
	var opItems []gen.Expr
	for _, op := range binOps {
		for _, a := range args {
			for _, b := range args {
				e := gen.B(op, a, b)
				opItems = append(opItems, e, relPath(gen.Ch("*", e)), &gen.Neg{E: e})
			}
		}
	}
	// three-operand chains over a reduced set (boolean results as operands)
	red := []gen.Expr{gen.N(1), gen.S("a"), gen.F("true"), relPath(gen.Ch("*")), gen.F("round", gen.N(1.5)), relPath(gen.Ch("nosuch"))}
	for _, o1 := range binOps {
		for _, o2 := range binOps {
			for _, a := range red {
				for _, b := range red {
					for _, c := range red {
						opItems = append(opItems, gen.B(o2, gen.B(o1, a, b), c))
					}
				}
			}
		}
	}
	// (b3) numeric / odd predicates on every axis, axes in every position, variables
	var misc []gen.Expr
	preds := []gen.Expr{gen.N(0), gen.N(1), gen.N(2), gen.N(1.5), &gen.Neg{E: gen.N(1)}, gen.B("div", gen.N(0), gen.N(0)), gen.B("div", gen.N(1), gen.N(0)),
		gen.F("position"), gen.F("last"), gen.B("-", gen.F("last"), gen.N(1)), gen.F("count", relPath(gen.Ch("*"))), gen.S("x"), gen.S(""), gen.F("round", gen.N(1.2)),
		gen.B("+", gen.F("position"), gen.N(1)), gen.B("mod", gen.F("position"), gen.N(2)), gen.F("string", relPath(gen.Dot())), relPath(gen.Ch("*", gen.N(1)))}
	axes := append(append([]string{}, gen.Axes...), "namespace")
	for _, ax := range axes {
		for _, tst := range []string{"node()", "*", "a"} {
			for _, p := range preds {
				misc = append(misc, relPath(gen.St(ax, tst, p)), gen.AbsP(gen.DSlash(), gen.St(ax, tst, p)), relPath(gen.Ch("*"), gen.St(ax, tst, p), gen.Ch("*")),
					relPath(gen.St(ax, tst, p, p)), &gen.Filter{Primary: &gen.Group{E: relPath(gen.St(ax, tst))}, Preds: []gen.Expr{p}})
			}
			for _, ax2 := range axes {
				misc = append(misc, relPath(gen.St(ax, tst), gen.St(ax2, tst)), relPath(gen.St(ax, tst), gen.DSlash(), gen.St(ax2, tst)))
				for _, ax3 := range []string{"child", "namespace", "ancestor", "following"} {
					misc = append(misc, relPath(gen.St(ax, tst), gen.St(ax2, "node()"), gen.St(ax3, tst)))
				}
			}
		}
	}
	for _, v := range []gen.Expr{&gen.Var{Name: "x"}, &gen.Path{Start: &gen.Var{Name: "x"}, Steps: []gen.Step{gen.Ch("a")}}, relPath(gen.Ch("a", &gen.Var{Name: "x"})),
		gen.F("count", &gen.Var{Name: "x"}), gen.B("+", &gen.Var{Name: "x"}, gen.N(1)), gen.B("|", &gen.Var{Name: "x"}, relPath(gen.Ch("a"))), &gen.Neg{E: &gen.Var{Name: "x"}}} {
		misc = append(misc, v)
	}
	mkSpace := func(name, desc string, items []gen.Expr) *explore.Space {
		return &explore.Space{Name: name, Desc: desc, Size: len(items),
			Label: func(i int) string { return gen.Render(items[i]) },
			Run: func(i int, w *explore.Worker) {
				c15Check(w, name, gen.Render(items[i]), gen.Skeleton(items[i]), docs(), true)
				w.RefOutcome("n/a")
			}}
	}
	// (a) every token sequence that Compile accepts
	maxTok := 4
	k := len(c06Tokens)
	tokSpace := &explore.Space{
		Name: fmt.Sprintf("Tok<=%d", maxTok), Desc: fmt.Sprintf("every sequence of <= %d tokens over the 31 tokens of C06 (with and without blanks) that Compile accepts, evaluated", maxTok),
		Size:  k * k,
		Label: func(i int) string { return c06Tokens[i/k] + " " + c06Tokens[i%k] + " ..." },
		Run: func(item int, w *explore.Worker) {
			tdocs := []*doc.Tree{emptyDoc, allKinds}
			idx := make([]int, maxTok)
			seen := map[string]bool{}
			for n := 1; n <= maxTok; n++ {
				if n == 1 && item%k != 0 {
					continue
				}
				total := 1
				for i := 2; i < n; i++ {
					total *= k
				}
				for code := 0; code < total; code++ {
					c := code
					idx[0] = item / k
					if n >= 2 {
						idx[1] = item % k
					}
					for i := 2; i < n; i++ {
						idx[i] = c % k
						c /= k
					}
					parts := make([]string, n)
					for i := 0; i < n; i++ {
						parts[i] = c06Tokens[idx[i]]
					}
					for _, sep := range []string{"", " "} {
						s := strings.Join(parts, sep)
						if seen[s] {
							continue
						}
						seen[s] = true
						c15Check(w, "Tok", s, shape(s), tdocs, true)
					}
				}
			}
			w.RefOutcome("n/a")
		},
	}
	// (d) size thresholds: deep and wide documents, many capture groups — expressions as strings
	var sizeExprs []string
	for _, ax := range []string{"descendant", "descendant-or-self", "ancestor", "ancestor-or-self", "following", "preceding", "child", "following-sibling"} {
		for _, pr := range []string{"[1]", "[last()]", "[@a]", "[@a = '1']", "[position() = 20]", "[17]", "[not(*)]", "[last() - 16]"} {
			sizeExprs = append(sizeExprs, "/"+ax+"::*"+pr, ax+"::*"+pr, "count(/"+ax+"::a"+pr+")", "//*["+ax+"::*"+pr+"]", "("+ax+"::node())"+pr)
		}
	}
	sizeExprs = append(sizeExprs, "//a[1]", "//*[last()]", "(//*)[last()]", "//*[ancestor::*[17]]", "//*[count(ancestor::*) > 16]", "string(/)", "string-length(/)", "//*[33]", "//b/ancestor::*[33]", "sum(//@a)", "//a//b",
		"//*[. = //b]", "//a | //b", "//*/.. | //b/..", "reverse(//*)", "string-join(//*/@a, ',')", "concat(//b, //a[40]/@a)", "normalize-space(/)", "translate(string(/), '1', '2')")
	for _, k := range []int{1, 9, 10, 11, 31, 32, 33, 99, 100, 101, 127, 128, 129, 255, 256, 257} {
		pat := strings.Repeat("(a?)", k)
		sizeExprs = append(sizeExprs, fmt.Sprintf("replace('aaa', '%s', '[$%d]')", pat, k), fmt.Sprintf("replace('aaa', '%s', '$1$%d$%d')", pat, k, k+1), fmt.Sprintf("matches('aaa', '^%sb?$')", pat),
			fmt.Sprintf("replace(//b, '%s', '$%d-')", pat, k/2+1))
	}
	sizeSpace := &explore.Space{Name: "Size", Desc: "positional / boolean predicates on every long axis, deep unions, string functions of the whole document on chains of depth 24 and 40 and a parent with 70 children; regular expressions with 1..257 capture groups and $n references at and around 10, 32, 100, 128, 256",
		Size:  len(sizeExprs),
		Label: func(i int) string { return sizeExprs[i] },
		Run: func(i int, w *explore.Worker) {
			c15Check(w, "Size", sizeExprs[i], shape(sizeExprs[i]), c15SizeDocs(), true)
			w.RefOutcome("n/a")
		}}
	return []*explore.Space{sizeSpace, fnSpace, mkSpace("Op", "every binary operator x every ordered pair of 27 typed operands (bare, in a predicate, negated) + 3-operand chains over 6 operands", opItems),
		mkSpace("Misc", "numeric/odd predicates on all 13 axis names in every position, two- and three-step axis combinations incl. namespace::, variables", misc), tokSpace}
}

func init() {
	explore.Register(&explore.Property{
		ID: "C15", Level: "exploration",
		Rule: "every expression of four slices that Compile accepts — (Fn) every function x arity 0..max+1 x every typed argument tuple, (Op) every binary operator x every ordered typed operand pair, (Misc) odd predicates on all axis names in all positions, variables, (Tok) every sequence of <= 4 tokens — is run through Select (drained) and Evaluate (drained) on the empty document, a 7-node document with every node kind and T(<=1..2), from every context node; oracle: terminates within the navigator-call budget, a panic value is never a runtime.Error (package-raised error values are allowed), Evaluate yields bool/float64/string/*NodeIterator; non-trivial = evaluation that produced a value or a deliberate error; distinct = distinct accepted expressions",
		Assumptions:    []string{"termination decided by a navigator-call budget (2e6 calls on <= 9-node documents)", "bounded slices"},
		Budget:         budget(180*time.Second, 12*time.Minute),
		MinRefOutcomes: 1,
		Spaces:         c15Spaces,
	})
}

package props

import (
	"encoding/hex"
	"bytes"
	"fmt"
	"os"
	"os/exec"
	"runtime/debug"
	"strconv"
	"strings"
	"time"

	"github.com/antchfx/xpath"

	"verif/mc/doc"
	"verif/mc/eng"
	"verif/mc/explore"
	"verif/mc/ref"
	"verif/mc/report"
)

var c06Alphabet = []string{
	",", "@", "(", ")", "|", "*", "[", "]", "+", "-", "=", "#", "$", "<", ">", "!", ".", "/", "\"", "'", ":", "&", "{", "%",
	"0", "9", "a", "d", "_", " ", "\t", "\n", "\x00", "é", "中", "\x80", "\xff", "i", "v", "n", "o", "r", "t", "x", "e", "1", "s", "p",
}

var c06Tokens = []string{"/", "//", ".", "..", "@", "*", "(", ")", "[", "]", ",", "|", "+", "-", "=", "!=", "<", "<=", "div", "and",
	"a", "a:b", "child::", "1", "'x'", "$", "f(", "text()", "count(", "::", "p:*"}

var c06NSMaps = []map[string]string{nil, {}, {"a": "u"}}

// totalOne checks the C06 oracle on one input string; it returns a
// description of the failure or "".
func totalOne(s string, full bool) (fail string, accepted bool) {
	defer func() {
		if r := recover(); r != nil {
			fail = fmt.Sprintf("panic escaped: %v", r)
		}
	}()
	e, err := xpath.Compile(s)
	switch {
	case e == nil && err == nil:
		return "Compile returned (nil, nil)", false
	case e != nil && err != nil:
		return "Compile returned both an expression and an error", false
	}
	accepted = e != nil
	if e != nil {
		if e.String() != s {
			return fmt.Sprintf("String() = %q", e.String()), accepted
		}
		if it := e.Select(doc.NewNav(emptyDoc, 0, nil)); it == nil {
			return "Select returned nil", accepted
		}
		// "usable": using it on the empty document must not abort with a Go
		// runtime error (deliberate error values are C15's business)
		if o := eng.Select(e, emptyDoc, 0, false); o.Kind == "panic-runtime" {
			return "accepted expression is not usable: Select: " + o.Msg, accepted
		}
		if o := eng.Evaluate(e, emptyDoc, 0, false); o.Kind == "panic-runtime" {
			return "accepted expression is not usable: Evaluate: " + o.Msg, accepted
		}
	}
	m := xpath.MustCompile(s)
	if m == nil {
		return "MustCompile returned nil", accepted
	}
	if it := m.Select(doc.NewNav(emptyDoc, 0, nil)); it == nil {
		return "MustCompile(...).Select returned nil", accepted
	}
	if full {
		for _, ns := range c06NSMaps {
			e2, err2 := xpath.CompileWithNS(s, ns)
			if (e2 == nil) == (err2 == nil) {
				return fmt.Sprintf("CompileWithNS(%v) returned expr=%v err=%v", ns, e2 != nil, err2), accepted
			}
			if e2 != nil {
				if o := eng.Evaluate(e2, emptyDoc, 0, false); o.Kind == "panic-runtime" {
					return fmt.Sprintf("expression accepted by CompileWithNS(%v) is not usable: %s", ns, o.Msg), accepted
				}
			}
		}
		// the verdict for one string does not depend on how often it was compiled
		e3, _ := xpath.Compile(s)
		if (e3 != nil) != accepted {
			return fmt.Sprintf("Compile accepted=%v the first time and accepted=%v the second time", accepted, e3 != nil), accepted
		}
	}
	return "", accepted
}

var emptyDoc = doc.Build(nil)

func c06Fail(w *explore.Worker, space, s, fail string) {
	cls := fail
	if i := strings.IndexByte(cls, ':'); i > 0 {
		cls = cls[:i]
	}
	w.Violation(&report.Case{Kind: "total", Expr: s, Expected: "exactly one of (expr, error); no panic; MustCompile non-nil", Got: fail, Class: cls,
		Extra: map[string]interface{}{"bytes": fmt.Sprintf("%x", s)},
		Sig:   "C06|" + space + "|" + cls + "|" + shape(s), Weight: len(s)})
}

// totalNS checks the C06 oracle on CompileWithNS(expr, {key: val}).
func totalNS(expr string, ns map[string]string) (fail string, accepted bool) {
	defer func() {
		if r := recover(); r != nil {
			fail = fmt.Sprintf("panic escaped: %v", r)
		}
	}()
	e, err := xpath.CompileWithNS(expr, ns)
	switch {
	case e == nil && err == nil:
		return "CompileWithNS returned (nil, nil)", false
	case e != nil && err != nil:
		return "CompileWithNS returned both an expression and an error", false
	}
	if e != nil {
		if o := eng.Evaluate(e, emptyDoc, 0, true); o.Kind == "panic-runtime" {
			return "expression accepted by CompileWithNS is not usable: " + o.Msg, true
		}
	}
	return "", e != nil
}

// nsMapSpace: the namespace map is an input of CompileWithNS too — every map
// with one binding whose prefix is any string of <= maxLen alphabet symbols
// (alone and next to an ordinary binding), for expressions that use no prefix,
// a bound one, that very prefix, and an unbound one.
func nsMapSpace(maxLen int) *explore.Space {
	k := len(c06Alphabet)
	exprsFor := func(key string) []string {
		return []string{"/a", "a:b", key + ":b", "*[" + key + ":*]", "q:b", "namespace-uri()"}
	}
	return &explore.Space{
		Name: fmt.Sprintf("NSmap-key<=%d", maxLen), Desc: fmt.Sprintf("CompileWithNS with every one-binding namespace map whose prefix is a string of <= %d symbols over the %d-symbol byte alphabet (value 'u' or empty; alone and beside the binding a=u) x 6 expressions (no prefix, bound prefix, that very prefix as a name test and in a predicate, unbound prefix, namespace-uri())", maxLen, k),
		Size:  k,
		Label: func(i int) string { return fmt.Sprintf("key %q...", c06Alphabet[i]) },
		Run: func(first int, w *explore.Worker) {
			var keys []string
			var rec func(s string, n int)
			rec = func(s string, n int) {
				keys = append(keys, s)
				if n == maxLen {
					return
				}
				for _, a := range c06Alphabet {
					rec(s+a, n+1)
				}
			}
			rec(c06Alphabet[first], 1)
			if first == 0 {
				keys = append(keys, "")
			}
			for _, key := range keys {
				for _, val := range []string{"u", ""} {
					for _, extra := range []bool{false, true} {
						ns := map[string]string{key: val}
						if extra {
							ns["a"] = "u"
						}
						for _, ex := range exprsFor(key) {
							w.Eval()
							fail, acc := totalNS(ex, ns)
							if acc {
								w.NonTrivialCase(ex + "\x00" + key)
								w.EngOutcome("accepted")
							} else {
								w.EngOutcome("rejected")
							}
							if fail != "" {
								cls := fail
								if i := strings.IndexByte(cls, ':'); i > 0 {
									cls = cls[:i]
								}
								w.Violation(&report.Case{Kind: "totalns", Expr: ex, NS: ns, Expected: "exactly one of (expr, error); no panic", Got: fail, Class: cls,
									Extra: map[string]interface{}{"key_bytes": fmt.Sprintf("%x", key), "expr_bytes": fmt.Sprintf("%x", ex), "val": val, "with_a": extra},
									Sig:   "C06|NSmap|" + cls + "|key=" + shape(key) + "|" + shape(ex), Weight: len(key)*10 + len(ex)})
							}
						}
					}
				}
			}
			w.Sample(fmt.Sprintf("CompileWithNS(%q, {%q: u})", keys[len(keys)/2]+":b", keys[len(keys)/2]))
			w.RefOutcome("n/a")
		},
	}
}

// shape abstracts a string to character classes (for grouping only).
func shape(s string) string {
	var sb strings.Builder
	for i := 0; i < len(s); i++ {
		c := s[i]
		switch {
		case c >= 'a' && c <= 'z' || c >= 'A' && c <= 'Z' || c == '_':
			sb.WriteByte('a')
		case c >= '0' && c <= '9':
			sb.WriteByte('0')
		case c == ' ' || c == '\t' || c == '\n':
			sb.WriteByte(' ')
		case c >= 0x80:
			sb.WriteByte('U')
		default:
			sb.WriteByte(c)
		}
	}
	r := sb.String()
	if len(r) > 24 {
		r = r[:24]
	}
	return r
}

func bytesSpace(maxLen int) *explore.Space {
	k := len(c06Alphabet)
	return &explore.Space{
		Name: fmt.Sprintf("B1-len<=%d", maxLen), Desc: fmt.Sprintf("every string of <= %d symbols over a %d-symbol byte alphabet (operators, quotes, digits, letters, blanks, NUL, multi-byte and invalid UTF-8)", maxLen, k),
		Size:  k,
		Label: func(i int) string { return fmt.Sprintf("%q...", c06Alphabet[i]) },
		Run: func(first int, w *explore.Worker) {
			idx := make([]int, maxLen)
			for n := 1; n <= maxLen; n++ {
				total := 1
				for i := 1; i < n; i++ {
					total *= k
				}
				for code := 0; code < total; code++ {
					c := code
					idx[0] = first
					for i := 1; i < n; i++ {
						idx[i] = c % k
						c /= k
					}
					var sb strings.Builder
					for i := 0; i < n; i++ {
						sb.WriteString(c06Alphabet[idx[i]])
					}
					s := sb.String()
					w.Eval()
					fail, acc := totalOne(s, true)
					if acc {
						w.NonTrivialCase(s)
						w.EngOutcome("accepted")
					} else {
						w.EngOutcome("rejected")
					}
					if code == total/2 && n == maxLen {
						w.Sample(fmt.Sprintf("%q", s))
					}
					if fail != "" {
						c06Fail(w, "B1", s, fail)
					}
				}
			}
			w.RefOutcome("n/a")
		},
	}
}

func tokenSpace(maxLen int, full bool) *explore.Space {
	k := len(c06Tokens)
	return &explore.Space{
		Name: fmt.Sprintf("B2-len<=%d", maxLen), Desc: fmt.Sprintf("every sequence of <= %d tokens over %d tokens, joined with and without blanks", maxLen, k),
		Size:  k * k,
		Label: func(i int) string { return c06Tokens[i/k] + " " + c06Tokens[i%k] + " ..." },
		Run: func(item int, w *explore.Worker) {
			idx := make([]int, maxLen)
			for n := 1; n <= maxLen; n++ {
				if n == 1 && item%k != 0 {
					continue // length-1 sequences are enumerated by the items with second token index 0
				}
				total := 1
				for i := 2; i < n; i++ {
					total *= k
				}
				for code := 0; code < total; code++ {
					c := code
					idx[0] = item / k
					if n >= 2 {
						idx[1] = item % k
					}
					for i := 2; i < n; i++ {
						idx[i] = c % k
						c /= k
					}
					parts := make([]string, n)
					for i := 0; i < n; i++ {
						parts[i] = c06Tokens[idx[i]]
					}
					for _, sep := range []string{"", " "} {
						s := strings.Join(parts, sep)
						w.Eval()
						fail, acc := totalOne(s, full || n <= 4)
						if acc {
							w.NonTrivialCase(s)
							w.EngOutcome("accepted")
						} else {
							w.EngOutcome("rejected")
						}
						if fail != "" {
							c06Fail(w, "B2", s, fail)
						}
					}
					if code == total/2 && n == maxLen {
						w.Sample(strings.Join(parts, " "))
					}
				}
			}
			w.RefOutcome("n/a")
		},
	}
}

// ---- explorer D: nesting ---------------------------------------------------

type wrapper struct{ pre, post string }

var c06Wrappers = []wrapper{
	{"(", ")"}, {"a[", "]"}, {"not(", ")"}, {"a/(", ")"}, {"(", ",a)"}, {"-", ""}, {"1+", ""}, {"", "+1"}, {"a|", ""}, {"a/", ""}, {"", "/a"},
	{"a[1][", "]"}, {"concat(1,", ")"}, {"a[b=", "]"}, {"(a|", ")"}, {"a[(", ")]"}, {"-(", ")"}, {"a/(b,", ")"}, {"", "[1]"}, {"count(a[", "])"},
	{"(a)[", "]"}, {"count(a)[", "]"}, {"'s'[", "]"}, {"1[", "]"}, {"(a)/b[", "]"}, {"a[not(", ")]"}, {"a[1=", "]"}, {"@a[", "]"}, {".[", "]"}, {"(a)[1][", "]"},
}

// nestContexts embed the nested construct in an outer position (so that e.g.
// parentheses are also nested where a location step is expected).
var nestContexts = []wrapper{{"", ""}, {"a/", ""}, {"a[", "]"}, {"count(", ")"}, {"a/(b,", ")"}, {"-", ""}, {"a|", ""}}

func nestString(unit []int, depth int, leaf string) string {
	ctx := nestContexts[unit[0]]
	unit = unit[1:]
	var pre, post strings.Builder
	for _, u := range unit { // unit[0] is the outermost wrapper
		pre.WriteString(c06Wrappers[u].pre)
	}
	for i := len(unit) - 1; i >= 0; i-- {
		post.WriteString(c06Wrappers[unit[i]].post)
	}
	return ctx.pre + strings.Repeat(pre.String(), depth) + leaf + strings.Repeat(post.String(), depth) + ctx.post
}

// NestCase is run in a child process with a small stack cap: an unguarded
// recursion overflows at 1e5..1e6 frames instead of needing 1e7.
func NestCase(unitCSV string, depth int) {
	debug.SetMaxStack(64 << 20)
	var unit []int
	for _, f := range strings.Split(unitCSV, ",") {
		n, _ := strconv.Atoi(f)
		unit = append(unit, n)
	}
	s := nestString(unit, depth, "a")
	fail, acc := totalOne(s, false)
	if fail != "" {
		fmt.Println("FAIL " + fail)
		os.Exit(1)
	}
	fmt.Println("OK accepted=" + strconv.FormatBool(acc))
}

func runNest(unit []int, depth int) (status, detail string) {
	self, _ := os.Executable()
	csv := make([]string, len(unit))
	for i, u := range unit {
		csv[i] = strconv.Itoa(u)
	}
	cmd := exec.Command(self, "nestcase", strings.Join(csv, ","), strconv.Itoa(depth))
	var out bytes.Buffer
	cmd.Stdout, cmd.Stderr = &out, &out
	done := make(chan error, 1)
	if err := cmd.Start(); err != nil {
		return "internal", err.Error()
	}
	go func() { done <- cmd.Wait() }()
	select {
	case err := <-done:
		o := out.String()
		switch {
		case err == nil && strings.HasPrefix(o, "OK accepted=true"):
			return "accepted", ""
		case err == nil:
			return "rejected", ""
		case strings.HasPrefix(o, "FAIL "):
			return "fail", strings.TrimSpace(o[5:])
		case strings.Contains(o, "stack exceeds") || strings.Contains(o, "stack overflow"):
			return "stack-overflow", firstLines(o, 3)
		case strings.Contains(o, "out of memory"):
			return "out-of-memory", firstLines(o, 3)
		}
		return "crash", firstLines(o, 3)
	case <-time.After(nestTimeout(depth)):
		cmd.Process.Kill()
		return "hang", fmt.Sprintf("no result within %v (a compile of a %d-level expression normally takes milliseconds)", nestTimeout(depth), depth)
	}
}

// nestTimeout: shallow nestings compile in microseconds; 60 s is five orders of
// magnitude of slack. Deep ones (10^6..10^7 levels, tens of MB of text) get 300 s.
func nestTimeout(depth int) time.Duration {
	if depth <= 1000 {
		return 60 * time.Second
	}
	return 300 * time.Second
}

func firstLines(s string, n int) string {
	ls := strings.SplitN(s, "\n", n+1)
	if len(ls) > n {
		ls = ls[:n]
	}
	return strings.Join(ls, " / ")
}

func nestSpace(unitLen int, depths []int) *explore.Space {
	k := len(c06Wrappers)
	total := 1
	for i := 0; i < unitLen; i++ {
		total *= k
	}
	total *= len(nestContexts)
	unitOf := func(code int) []int {
		u := make([]int, unitLen+1)
		u[0] = code % len(nestContexts)
		code /= len(nestContexts)
		for i := 1; i <= unitLen; i++ {
			u[i] = code % k
			code /= k
		}
		return u
	}
	return &explore.Space{
		Name: fmt.Sprintf("Nest-unit%d", unitLen), Desc: fmt.Sprintf("every repeating unit of %d wrappers (of %d) in each of %d outer contexts, nested to depths %v, each in a child process with a 64 MiB stack cap", unitLen, k, len(nestContexts), depths),
		Size:  total,
		Label: func(i int) string { return nestString(unitOf(i), 2, "a") },
		Run: func(i int, w *explore.Worker) {
			unit := unitOf(i)
			w.Sample(nestString(unit, 2, "a") + " ... to depth " + fmt.Sprint(depths[len(depths)-1]))
			for _, d := range depths {
				w.Eval()
				w.NonTrivialCase(fmt.Sprint(unit, d))
				st, detail := runNest(unit, d)
				w.EngOutcome(st)
				w.RefOutcome("n/a")
				switch st {
				case "accepted", "rejected":
					continue
				case "internal":
					w.InternalError(detail)
					continue
				}
				csv := make([]string, len(unit))
				for j, u := range unit {
					csv[j] = strconv.Itoa(u)
				}
				w.Violation(&report.Case{Kind: "nest", Expr: nestString(unit, 2, "a"), Expected: "terminates with an expression or an error", Got: st + ": " + detail, Class: st,
					Extra: map[string]interface{}{"unit": strings.Join(csv, ","), "depth": d},
					Sig:   "C06|Nest|" + st + "|" + nestString(unit, 1, "X"), Weight: d/1000 + 10*len(unit) + unit[0]})
				break
			}
		},
	}
}

// callSpace: every function name of the table (and an unknown one) x arity
// 0..4 x a small argument alphabet, bare and inside a predicate: Compile only.
func callSpace() *explore.Space {
	var names []string
	for n := range ref.Arity {
		names = append(names, n)
	}
	names = append(names, "nosuchfn", "processing-instruction", "node", "text", "comment")
	for i := 1; i < len(names); i++ {
		for j := i; j > 0 && names[j-1] > names[j]; j-- {
			names[j-1], names[j] = names[j], names[j-1]
		}
	}
	args := []string{"1", "'s'", "a", "@a", ".", "true()", "'('", "a[1]", "(a)", "-1", "$v", "''", "a/b", "1 div 0", "*", "//a", "'[a'", "'*'"}
	return &explore.Space{
		Name: "Calls", Desc: fmt.Sprintf("every function name x arity 0..4 x argument tuples over %d arguments, bare / in a predicate / as a step: Compile only", len(args)),
		Size:  len(names),
		Label: func(i int) string { return names[i] + "(...)" },
		Run: func(i int, w *explore.Worker) {
			name := names[i]
			w.Sample(name + "(a, 1)")
			for n := 0; n <= 4; n++ {
				alpha := args
				if n >= 3 {
					alpha = args[:7]
				}
				total := 1
				for k := 0; k < n; k++ {
					total *= len(alpha)
				}
				for code := 0; code < total; code++ {
					c := code
					parts := make([]string, n)
					for k := 0; k < n; k++ {
						parts[k] = alpha[c%len(alpha)]
						c /= len(alpha)
					}
					call := name + "(" + strings.Join(parts, ", ") + ")"
					for _, s := range []string{call, "//a[" + call + "]", "a/" + call, call + "/a", call + " = 1"} {
						w.Eval()
						fail, acc := totalOne(s, n <= 2)
						if acc {
							w.NonTrivialCase(s)
							w.EngOutcome("accepted")
						} else {
							w.EngOutcome("rejected")
						}
						if fail != "" {
							c06Fail(w, "Calls", s, fail)
						}
					}
				}
			}
			w.RefOutcome("n/a")
		},
	}
}

func init() {
	report.RegisterReplayer("total", func(c *report.Case) (string, bool, error) {
		fail, _ := totalOne(c.Expr, true)
		if fail == "" {
			return "total", true, nil
		}
		return fail, false, nil
	})
	report.RegisterReplayer("totalns", func(c *report.Case) (string, bool, error) {
		// keys may be invalid UTF-8: the exact bytes are kept in hex
		kb, err1 := hex.DecodeString(fmt.Sprint(c.Extra["key_bytes"]))
		eb, err2 := hex.DecodeString(fmt.Sprint(c.Extra["expr_bytes"]))
		if err1 != nil || err2 != nil {
			return "", false, fmt.Errorf("totalns case: bad hex fields")
		}
		ns := map[string]string{string(kb): fmt.Sprint(c.Extra["val"])}
		if b, _ := c.Extra["with_a"].(bool); b {
			ns["a"] = "u"
		}
		fail, _ := totalNS(string(eb), ns)
		if fail == "" {
			return "total", true, nil
		}
		return fail, false, nil
	})
	report.RegisterReplayer("nest", func(c *report.Case) (string, bool, error) {
		var unit []int
		for _, f := range strings.Split(c.Extra["unit"].(string), ",") {
			n, _ := strconv.Atoi(f)
			unit = append(unit, n)
		}
		d := int(c.Extra["depth"].(float64))
		st, detail := runNest(unit, d)
		return st + ": " + detail, st == "accepted" || st == "rejected", nil
	})
	explore.Register(&explore.Property{
		ID: "C06", Level: "exploration",
		Rule: "B1: every string of <= 3 (thorough: 4) symbols over a 48-symbol alphabet (all scanner-relevant bytes, quotes, digits, letters, blanks, NUL, 2- and 3-byte UTF-8, lone continuation byte, 0xFF); B2: every sequence of <= 4 (thorough: 5-6) tokens over 31 tokens joined with and without blanks; for each string Compile, CompileWithNS(nil,{},{a:u}) and MustCompile run under recover: no panic escapes, exactly one of (expr, error), MustCompile non-nil, an accepted expression reports its text and can be handed to Select. NSmap: CompileWithNS with every one-binding map whose prefix is a string of <= 2 (thorough: 3) alphabet symbols x 6 expressions. Calls: every function name x arity 0..4 x argument tuples, bare / in a predicate / as a step (Compile only). Nest: every repeating unit of 1-2 (thorough: 3) wrappers out of 30 recursive constructs in 7 outer contexts nested to depth 10..4*10^6 (thorough: 10^7), each compiled in a child process with a 64 MiB stack cap; a stack overflow, crash or hang is a violation; non-trivial = string accepted by Compile / nesting case; distinct = distinct strings",
		Assumptions:    []string{"bounded string length / token count / nesting depth", "an unguarded recursion needs < 64 MiB of stack per 10^5..10^6 frames to be visible"},
		Budget:         budget(90*time.Second, 14*time.Minute),
		MinRefOutcomes: 1,
		Spaces: func(tier string) []*explore.Space {
			if tier == "thorough" {
				return []*explore.Space{bytesSpace(4), tokenSpace(5, false), callSpace(), nsMapSpace(3), nestSpace(1, []int{10, 25, 40, 60, 100, 150, 1000, 10000, 100000, 1000000, 10000000}),
					nestSpace(2, []int{10, 30, 50, 1000, 100000, 1000000}), nestSpace(3, []int{20, 300, 100000})}
			}
			return []*explore.Space{bytesSpace(3), tokenSpace(4, true), callSpace(), nsMapSpace(2), nestSpace(1, []int{10, 25, 40, 60, 100, 150, 1000, 10000, 100000, 1000000, 4000000}), nestSpace(2, []int{20, 45, 300, 100000})}
		},
	})
}

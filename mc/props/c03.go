package props

import (
	"fmt"
	"time"

	"verif/mc/doc"
	"verif/mc/explore"
	"verif/mc/gen"
)

// uniM is the "multi-parent" universe: a root element with k parent elements
// whose child lists are all words of length <= L over {a, b, text}; fan-out
// differs between siblings.
func uniM(k, L int) []*doc.Tree {
	key := fmt.Sprintf("M%d-%d", k, L)
	uniMu.Lock()
	if t, ok := uniCache[key]; ok {
		uniMu.Unlock()
		return t
	}
	uniMu.Unlock()
	var words [][]doc.Spec
	var rec func(w []doc.Spec, n int)
	vals := []string{"1", "2", "x"}
	rec = func(w []doc.Spec, n int) {
		words = append(words, append([]doc.Spec{}, w...))
		if n == L {
			return
		}
		i := len(w)
		rec(append(w, doc.Spec{K: "e", N: "a", A: attrIf(i%2 == 0, "a", vals[i%3])}), n+1)
		rec(append(w, doc.Spec{K: "e", N: "b"}), n+1)
		rec(append(w, doc.Spec{K: "t", V: vals[i%3]}), n+1)
	}
	rec(nil, 0)
	var out []*doc.Tree
	idx := make([]int, k)
	for {
		var parents []doc.Spec
		for p := 0; p < k; p++ {
			parents = append(parents, doc.Spec{K: "e", N: "a", C: words[idx[p]]})
		}
		out = append(out, doc.Build([]doc.Spec{{K: "e", N: "b", C: parents}}))
		p := 0
		for ; p < k; p++ {
			idx[p]++
			if idx[p] < len(words) {
				break
			}
			idx[p] = 0
		}
		if p == k {
			break
		}
	}
	uniMu.Lock()
	uniCache[key] = out
	uniMu.Unlock()
	return out
}

func attrIf(c bool, n, v string) []doc.AttrS {
	if c {
		return []doc.AttrS{{N: n, V: v}}
	}
	return nil
}

// positional predicates of the C03 fragment
func posPreds() []gen.Expr {
	var out []gen.Expr
	pos := func() gen.Expr { return gen.F("position") }
	last := func() gen.Expr { return gen.F("last") }
	for _, n := range []float64{0, 1, 2, 3, 4, 5, 6} {
		out = append(out, gen.N(n))
	}
	for _, op := range []string{"=", "!=", "<", "<=", ">", ">="} {
		for _, n := range []float64{1, 2, 3, 5} {
			out = append(out, gen.B(op, pos(), gen.N(n)), gen.B(op, gen.N(n), pos()))
		}
		out = append(out, gen.B(op, pos(), last()), gen.B(op, last(), pos()))
	}
	for _, n := range []float64{1, 2} {
		out = append(out, gen.B("=", gen.B("-", last(), gen.N(n)), pos()), gen.B("=", pos(), gen.B("-", last(), gen.N(n))), gen.B(">", gen.B("-", last(), gen.N(n)), pos()))
	}
	out = append(out, last())
	for _, n := range []float64{1, 2} {
		out = append(out, gen.B("-", last(), gen.N(n)))
	}
	return out
}

func c03Spaces(tier string) []*explore.Space {
	childForms := []gen.Step{gen.Ch("a"), gen.Ch("*"), gen.Ch("node()"), gen.Ch("text()"), gen.Ch("b"),
		gen.St("child", "a"), gen.St("child", "*"), gen.St("child", "node()"), gen.St("child", "text()")}
	prefixes := [][]gen.Step{
		nil,
		{gen.Ch("*")},
		{gen.Ch("*"), gen.Ch("*")},
		{gen.Ch("a")},
		{gen.DSlash()},                                       // //x[n] (absolute only) and .//x
		{gen.Dot(), gen.DSlash()},                            // .//x[n]
		{gen.DotDot()},                                       // ../x[n]
		{gen.DotDot(), gen.DSlash()},                         // ..//x[n]
		{gen.St("descendant", "a")},                          // descendant::a/x[n]
		{gen.St("descendant-or-self", "node()")},             // explicit
		{gen.St("ancestor", "*")},                            // ancestor::*/x[n]
		{gen.St("following", "node()")},                      // following::node()/x[n]
		{gen.St("preceding-sibling", "*")},                   // preceding-sibling::*/x[n]
		{gen.Ch("*"), gen.DSlash()},                          // *//x[n]
		{gen.DSlash(), gen.Ch("a"), gen.DSlash()},            // //a//x[n]
		{gen.Ch("*", gen.N(1))},                              // *[1]/x[n]   two positional steps
		{gen.Ch("*", gen.F("last"))},                         // *[last()]/x[n]
		{gen.Ch("*", gen.B(">", gen.F("position"), gen.N(1)))}, // *[position()>1]/x[n]
	}
	pp := posPreds()
	var c1 []hostCase
	for _, pre := range prefixes {
		for _, h := range childForms {
			for _, p := range pp {
				for _, abs := range []bool{false, true} {
					if len(pre) > 0 && pre[0].Abbr == "//" && !abs {
						continue
					}
					if len(pre) > 0 && (pre[0].Abbr == "." || pre[0].Abbr == "..") && abs {
						continue
					}
					ws := append(append([]gen.Step{}, pre...), withPred(h, p))
					bs := append(append([]gen.Step{}, pre...), h)
					c1 = append(c1, hostCase{&gen.Path{Abs: abs, Steps: ws}, &gen.Path{Abs: abs, Steps: bs}})
				}
			}
		}
	}
	// prefixed and unprefixed elements of the same local name side by side: the
	// position counts the step's candidates, not everything with that local name
	var c5 []hostCase
	for _, pre := range [][]gen.Step{nil, {gen.Ch("*")}, {gen.Ch("*"), gen.Ch("*")}, {gen.DSlash()}, {gen.DotDot()}} {
		for _, h := range []gen.Step{gen.Ch("a"), gen.Ch("p:a"), gen.Ch("q:a"), gen.Ch("b"), gen.Ch("*"), gen.St("child", "p:a")} {
			for _, p := range pp {
				abs := len(pre) > 0 && pre[0].Abbr == "//"
				ws := append(append([]gen.Step{}, pre...), withPred(h, p))
				bs := append(append([]gen.Step{}, pre...), h)
				c5 = append(c5, hostCase{&gen.Path{Abs: abs, Steps: ws}, &gen.Path{Abs: abs, Steps: bs}})
			}
		}
	}
	// mixed content with whitespace-only text nodes: they are nodes like any other for node()/text() steps
	var c6 []hostCase
	for _, pre := range [][]gen.Step{nil, {gen.Ch("*")}, {gen.DSlash()}} {
		for _, h := range []gen.Step{gen.Ch("node()"), gen.Ch("text()"), gen.Ch("*"), gen.Ch("a"), gen.Ch("comment()")} {
			for _, p := range pp {
				abs := len(pre) > 0 && pre[0].Abbr == "//"
				ws := append(append([]gen.Step{}, pre...), withPred(h, p))
				bs := append(append([]gen.Step{}, pre...), h)
				c6 = append(c6, hostCase{&gen.Path{Abs: abs, Steps: ws}, &gen.Path{Abs: abs, Steps: bs}})
			}
		}
	}
	// positional first predicate followed by one or two boolean predicates
	var c2 []hostCase
	sm := smallAtoms()
	for _, pre := range [][]gen.Step{nil, {gen.Ch("*")}, {gen.DSlash()}, {gen.St("descendant", "a")}} {
		for _, h := range []gen.Step{gen.Ch("a"), gen.Ch("*"), gen.Ch("node()")} {
			for _, p := range pp {
				for _, a := range sm {
					abs := len(pre) > 0 && pre[0].Abbr == "//"
					ws := append(append([]gen.Step{}, pre...), withPred(h, p, a))
					bs := append(append([]gen.Step{}, pre...), h)
					c2 = append(c2, hostCase{&gen.Path{Abs: abs, Steps: ws}, &gen.Path{Abs: abs, Steps: bs}})
				}
			}
		}
	}
	for _, h := range []gen.Step{gen.Ch("a"), gen.Ch("*")} {
		for _, p := range []gen.Expr{gen.N(1), gen.N(2), gen.F("last"), gen.B("<", gen.F("position"), gen.N(3))} {
			for _, a := range sm {
				for _, b := range sm {
					c2 = append(c2, hostCase{relPath(gen.Ch("*"), withPred(h, p, a, b)), relPath(gen.Ch("*"), h)})
				}
			}
		}
	}
	// positional child steps INSIDE a predicate: re-evaluated for every candidate
	// (several candidates lead to the same parent)
	var c4 []hostCase
	for _, h := range []gen.Step{gen.Ch("*"), gen.Ch("node()"), gen.St("descendant", "*"), gen.St("descendant-or-self", "node()")} {
		for _, p := range []gen.Expr{gen.N(1), gen.N(2), gen.F("last"), gen.B("<", gen.F("position"), gen.N(2)), gen.B("=", gen.F("position"), gen.F("last"))} {
			inner := []gen.Expr{
				relPath(gen.DotDot(), gen.Ch("*", p)), relPath(gen.Ch("*", p)), relPath(gen.Ch("*"), gen.Ch("*", p)), gen.AbsP(gen.Ch("*"), gen.Ch("*", p)), relPath(gen.Dot(), gen.DSlash(), gen.Ch("*", p)),
				gen.AbsP(gen.DSlash(), gen.Ch("*", p)), relPath(gen.DotDot(), gen.Ch("node()", p)), relPath(gen.St("ancestor", "*"), gen.Ch("*", p)),
			}
			for _, in := range inner {
				c4 = append(c4, hostCase{relPath(withPred(h, in)), relPath(h)}, hostCase{relPath(withPred(h, gen.B("=", relPath(gen.Dot()), in))), relPath(h)},
					hostCase{relPath(withPred(h, gen.F("not", in))), relPath(h)}, hostCase{relPath(withPred(h, gen.B(">", gen.F("count", in), gen.N(0)))), relPath(h)})
			}
		}
	}
	// (F)[n] for a flat path or a single descendant step F
	var c3 []hostCase
	flats := []*gen.Path{
		relPath(gen.Ch("a")), relPath(gen.Ch("*")), relPath(gen.Ch("node()")), relPath(gen.Ch("*"), gen.Ch("*")), relPath(gen.Ch("*"), gen.Ch("a")),
		relPath(gen.Ch("*"), gen.Ch("node()")), relPath(gen.Ch("*"), gen.Ch("*"), gen.Ch("*")), relPath(gen.At("*")), relPath(gen.Ch("*"), gen.At("*")),
		relPath(gen.Ch("*"), gen.Ch("*"), gen.At("a")), relPath(gen.Dot()), relPath(gen.Ch("*"), gen.Dot(), gen.Ch("text()")),
		gen.AbsP(gen.Ch("*"), gen.Ch("*")), gen.AbsP(gen.Ch("*"), gen.Ch("*"), gen.Ch("*")), gen.AbsP(gen.Ch("b"), gen.Ch("a"), gen.Ch("node()")),
		gen.AbsP(gen.DSlash(), gen.Ch("a")), gen.AbsP(gen.DSlash(), gen.Ch("*")), gen.AbsP(gen.DSlash(), gen.Ch("node()")), gen.AbsP(gen.DSlash(), gen.Ch("text()")),
		relPath(gen.Dot(), gen.DSlash(), gen.Ch("a")), relPath(gen.St("descendant", "a")), relPath(gen.St("descendant", "*")), relPath(gen.St("descendant", "node()")),
		gen.AbsP(gen.St("descendant-or-self", "a")), gen.AbsP(gen.St("descendant", "node()")), relPath(gen.St("descendant-or-self", "*")),
	}
	for _, f := range flats {
		for _, n := range []float64{0, 1, 2, 3, 4, 5} {
			c3 = append(c3, hostCase{&gen.Filter{Primary: &gen.Group{E: f}, Preds: []gen.Expr{gen.N(n)}}, f})
		}
	}
	if tier == "thorough" {
		return []*explore.Space{
			hostSpace("Pos1xM2-3", "prefix/child-step[positional] x multi-parent universe (2 parents, words<=3)", c1, func() []*doc.Tree { return uniM(2, 3) }, "C03"),
			hostSpace("Pos1xM3-2", "prefix/child-step[positional] x multi-parent universe (3 parents, words<=2)", c1, func() []*doc.Tree { return uniM(3, 2) }, "C03"),
			hostSpace("Pos1xT4", "prefix/child-step[positional] x T(<=4)", c1, func() []*doc.Tree { return uniT(4) }, "C03"),
			hostSpace("Pos2xM2-3", "child-step[positional][boolean]{1,2} x M(2,3)", c2, func() []*doc.Tree { return uniM(2, 3) }, "C03"),
			hostSpace("Pos3xM2-3", "(F)[n] x M(2,3)", c3, func() []*doc.Tree { return uniM(2, 3) }, "C03"),
			hostSpace("Pos4xM2-3", "positional child steps inside a predicate x M(2,3)", c4, func() []*doc.Tree { return uniM(2, 3) }, "C03"),
			hostSpace("Pos4xT4", "positional child steps inside a predicate x T(<=4)", c4, func() []*doc.Tree { return uniT(4) }, "C03"),
			hostSpace("Pos5xFlatNS4", "child-step[positional] with prefixed / unprefixed name tests x two parents with 1..4 children over {a, p:a, q:a, b}", c5, func() []*doc.Tree { return uniFlatNS(4) }, "C03"),
			hostSpace("Pos6xWS4", "child-step[positional] over mixed content with whitespace-only text nodes (1..4 children over {a, ' ', 'x', newline+blanks, comment})", c6, func() []*doc.Tree { return uniMixedWS(4) }, "C03"),
			hostSpace("Pos1xWide6", "prefix/child-step[positional] x one parent with 5..6 children", c1, func() []*doc.Tree { return uniWide(6) }, "C03"),
			hostSpace("Pos3xWide6", "(F)[n] x one parent with 5..6 children", c3, func() []*doc.Tree { return uniWide(6) }, "C03"),
			hostSpace("Pos3xT5", "(F)[n] x T(<=5)", c3, func() []*doc.Tree { return uniT(5) }, "C03"),
		}
	}
	return []*explore.Space{
		hostSpace("Pos1xM2-2", "prefix/child-step[positional] x multi-parent universe (2 parents, words<=2)", c1, func() []*doc.Tree { return uniM(2, 2) }, "C03"),
		hostSpace("Pos1xT3", "prefix/child-step[positional] x T(<=3)", c1, func() []*doc.Tree { return uniT(3) }, "C03"),
		hostSpace("Pos2xM2-2", "child-step[positional][boolean]{1,2} x M(2,2)", c2, func() []*doc.Tree { return uniM(2, 2) }, "C03"),
		hostSpace("Pos3xM2-2", "(F)[n] x M(2,2)", c3, func() []*doc.Tree { return uniM(2, 2) }, "C03"),
		hostSpace("Pos4xM2-2", "positional child steps inside a predicate x M(2,2)", c4, func() []*doc.Tree { return uniM(2, 2) }, "C03"),
		hostSpace("Pos5xFlatNS3", "child-step[positional] with prefixed / unprefixed name tests x two parents with 1..3 children over {a, p:a, q:a, b}", c5, func() []*doc.Tree { return uniFlatNS(3) }, "C03"),
		hostSpace("Pos6xWS3", "child-step[positional] over mixed content with whitespace-only text nodes (1..3 children over {a, ' ', 'x', newline+blanks, comment})", c6, func() []*doc.Tree { return uniMixedWS(3) }, "C03"),
		hostSpace("Pos1/4xWide5", "fixed stratum (every 4th) of prefix/child-step[positional] x one parent with 5 children", strideCases(c1, 4), func() []*doc.Tree { return uniWide(5) }, "C03"),
		hostSpace("Pos4/3xT3", "fixed stratum (every 3rd) of positional child steps inside a predicate x T(<=3)", strideCases(c4, 3), func() []*doc.Tree { return uniT(3) }, "C03"),
		hostSpace("Pos3xT3", "(F)[n] x T(<=3)", c3, func() []*doc.Tree { return uniT(3) }, "C03"),
	}
}

func init() {
	explore.Register(&explore.Property{
		ID: "C03", Level: "exploration",
		Rule: "child-axis steps whose first predicate is positional ([n], position() op n in both operand orders, position() op last(), last(), last()-n), alone, after 18 kinds of prefix, and followed by one or two boolean predicates, plus prefixed / unprefixed name tests over siblings sharing a local name under different prefixes, plus (F)[n] for flat paths and single descendant steps F, are evaluated on every document of a multi-parent universe (fan-out differs between sibling parents) and of T(<=N) from every context node and compared as node sets with the reference (proximity position per parent; document order for (F)[n]); non-trivial = the positional predicate keeps a strict non-empty subset of the step's candidates; distinct = distinct expressions with a non-trivial case",
		Assumptions:    []string{"hand-written reference evaluator", "lawful NodeNavigator", "bounded trees"},
		Budget:         budget(240*time.Second, 30*time.Minute),
		MinRefOutcomes: 2,
		Spaces:         c03Spaces,
	})
}

package props

import (
	"strconv"
	"time"

	"verif/mc/doc"
	"verif/mc/explore"
	"verif/mc/gen"
	"verif/mc/ref"
)

func lit(s string, v float64) *gen.Num { return &gen.Num{V: v, Lit: s} }

func c08Leaves() (all, small []gen.Expr) {
	lits := []gen.Expr{lit("0", 0), lit("1", 1), lit("2", 2), lit("3", 3), lit("10", 10), lit("0.5", 0.5), lit(".5", 0.5), lit("1.25", 1.25), lit("999999", 999999), lit("7.", 7)}
	paths := []gen.Expr{relPath(gen.Ch("a")), relPath(gen.Ch("*")), relPath(gen.At("*")), relPath(gen.Ch("text()")), relPath(gen.Ch("nosuch")), relPath(gen.Dot()),
		relPath(gen.DotDot(), gen.At("*")), relPath(gen.DotDot(), gen.Ch("*")), relPath(gen.DotDot())}
	all = append(all, lits...)
	for _, p := range paths {
		all = append(all, gen.F("count", p), gen.F("sum", p), gen.F("number", p), gen.F("string-length", p))
	}
	for _, v := range []string{"", "7", " 7 ", "-7", " -7", "\n -7\n", "-7 ", "7.", " 7.", ".7", "-.7", "x", "1e3", "+1", "Infinity", "0x10", "- 7", "1 2", "NaN", "١", "7-", "--7", "-"} {
		all = append(all, gen.F("number", gen.S(v)))
	}
	all = append(all, gen.F("number"), gen.F("number", gen.F("true")), gen.F("number", gen.F("false")))
	small = []gen.Expr{lit("0", 0), lit("1", 1), lit("2", 2), lit("0.5", 0.5), lit("10", 10),
		gen.F("count", relPath(gen.Ch("*"))), gen.F("sum", relPath(gen.At("*"))), gen.F("number", relPath(gen.Dot())),
		gen.F("number", gen.S("x")), gen.F("string-length", relPath(gen.Ch("text()"))), gen.F("number", relPath(gen.Ch("nosuch"))),
		gen.F("sum", relPath(gen.DotDot(), gen.At("*"))), gen.F("count", relPath(gen.DotDot(), gen.Ch("*"))), relPath(gen.DotDot(), gen.At("a")), relPath(gen.At("a"))}
	return
}

var arith = []string{"+", "-", "*", "div", "mod"}

// numberLexemes enumerates EVERY XPath Number token (Digits ('.' Digits?)? |
// '.' Digits) over the digit alphabet up to maxLen characters; the reference
// value is the correctly rounded decimal (strconv).
func numberLexemes(digits string, maxLen int) []gen.Expr {
	var out []gen.Expr
	var rec func(s string, dots int)
	rec = func(s string, dots int) {
		if s != "" && s != "." {
			v, err := strconv.ParseFloat(s, 64)
			if err != nil {
				panic("numberLexemes: " + s)
			}
			out = append(out, lit(s, v))
		}
		if len(s) == maxLen {
			return
		}
		for _, d := range digits {
			rec(s+string(d), dots)
		}
		if dots == 0 {
			rec(s+".", 1)
		}
	}
	rec("", 0)
	return out
}

func c08Spaces(tier string) []*explore.Space {
	all, small := c08Leaves()
	// A0: every number lexeme over a digit alphabet up to a length, alone, under
	// string(), and as an operand next to an operator / bracket (token boundary)
	var a0 []gen.Expr
	lexLen := 4
	if tier == "thorough" {
		lexLen = 5
	}
	for _, l := range numberLexemes("0123579", lexLen) {
		a0 = append(a0, l, gen.F("string", l), gen.B("+", l, lit("1", 1)), gen.B("=", l, lit(strconv.FormatFloat(l.(*gen.Num).V, 'f', -1, 64), l.(*gen.Num).V)))
		// a number directly followed by an operator name or sign: "6div 3", "7mod 4", "1.+1"
		if len(l.(*gen.Num).Lit) <= 3 {
			for _, op := range []string{"div", "mod", "+", "-", "*"} {
				a0 = append(a0, &gen.Bin{Op: op, L: l, R: lit("2", 2), GlueL: true})
			}
		}
	}
	// A1: leaves, unary minus chains, floor/ceiling of leaves
	var a1 []gen.Expr
	for _, l := range all {
		a1 = append(a1, l, &gen.Neg{E: l}, &gen.Neg{E: &gen.Neg{E: l}}, &gen.Neg{E: &gen.Neg{E: &gen.Neg{E: l}}}, gen.F("floor", l), gen.F("ceiling", l),
			gen.F("floor", &gen.Neg{E: l}), gen.F("ceiling", &gen.Neg{E: l}))
	}
	// A2: one binary operator over all leaves (+ unary minus on either side)
	var a2 []gen.Expr
	for _, op := range arith {
		for _, x := range all {
			for _, y := range all {
				a2 = append(a2, gen.B(op, x, y))
			}
		}
		for _, x := range small {
			for _, y := range small {
				a2 = append(a2, gen.B(op, &gen.Neg{E: x}, y), gen.B(op, x, &gen.Neg{E: y}), gen.F("floor", gen.B(op, x, y)), gen.F("ceiling", gen.B(op, x, y)))
			}
		}
	}
	// A3: two (thorough: three) binary operators over the reduced leaves, both shapes
	var a3 []gen.Expr
	for _, o1 := range arith {
		for _, o2 := range arith {
			for _, x := range small {
				for _, y := range small {
					for _, z := range small {
						// the renderer parenthesises exactly where the AST needs it
						a3 = append(a3, gen.B(o2, gen.B(o1, x, y), z))
						a3 = append(a3, gen.B(o1, x, gen.B(o2, y, z)))
					}
				}
			}
		}
	}
	// A4: string(E)
	var a4 []gen.Expr
	for _, l := range []gen.Expr{lit("0.0000001", 1e-7), lit("0.000001", 1e-6), lit("0.00001", 1e-5), lit("0.0001", 1e-4), lit("0.001", 1e-3), lit("0.01", 0.01), lit("0.1", 0.1),
		lit("1", 1), lit("1.5", 1.5), lit("100000", 100000), lit("999999", 999999), lit("123456.789", 123456.789), gen.B("*", lit("0", 0), &gen.Neg{E: lit("1", 1)}),
		lit("0.30000000000000004", 0.30000000000000004), lit("12345678901234567890", 12345678901234567890)} {
		a4 = append(a4, gen.F("string", l), gen.F("string", &gen.Neg{E: l}))
	}
	for _, op := range arith {
		for _, x := range small {
			for _, y := range small {
				a4 = append(a4, gen.F("string", gen.B(op, x, y)))
			}
		}
	}
	for _, l := range all {
		a4 = append(a4, gen.F("string", l))
	}
	// A6: arithmetic evaluated per candidate inside a predicate (nothing may be
	// remembered from one candidate to the next)
	var a6 []hostCase
	ctxLeaves := []gen.Expr{gen.F("count", relPath(gen.Ch("*"))), gen.F("count", relPath(gen.At("*"))), gen.F("number", relPath(gen.Dot())), gen.F("string-length", relPath(gen.Dot())),
		gen.F("sum", relPath(gen.At("*"))), gen.F("position"), gen.F("last"), gen.F("count", relPath(gen.St("preceding-sibling", "node()")))}
	lits := []gen.Expr{lit("1", 1), lit("2", 2), lit("0.5", 0.5)}
	for _, h := range []gen.Step{gen.Ch("*"), gen.St("descendant-or-self", "node()"), gen.Ch("node()")} {
		for _, o1 := range []string{"+", "-", "*", "div"} {
			for _, o2 := range []string{"+", "*", "-"} {
				for _, x := range ctxLeaves {
					if call, ok := x.(*gen.Call); ok && (call.Name == "position" || call.Name == "last") && h.Axis != "child" {
						continue // position()/last() are only specified for child steps (C03)
					}
					for _, l1 := range lits {
						for _, l2 := range lits[:2] {
							for _, cmp := range []string{"=", ">"} {
								a6 = append(a6, hostCase{relPath(withPred(h, gen.B(cmp, gen.B(o2, gen.B(o1, x, l1), l2), lit("2", 2)))), relPath(h)},
									hostCase{relPath(withPred(h, gen.B(cmp, gen.B(o2, l2, gen.B(o1, l1, x)), lit("2", 2)))), relPath(h)})
							}
						}
					}
				}
			}
		}
	}
	// A7: arithmetic over nodes whose NAMES contain '-', '.' and digits (a-1 is a name, a -1 and a - 1 are subtractions)
	var a7 []gen.Expr
	for _, nm := range []string{"a-1", "a.b", "a1", "a-b", "a-1-1", "a"} {
		p := relPath(gen.Ch(nm))
		a7 = append(a7, gen.F("count", p), gen.F("sum", p), gen.F("number", p), gen.B("-", gen.F("count", p), lit("1", 1)), gen.B("-", p, lit("1", 1)), gen.B("+", p, relPath(gen.Ch("a"))),
			gen.B("*", gen.F("count", p), relPath(gen.At(nm))), gen.B("div", gen.F("sum", p), gen.F("count", p)), &gen.Neg{E: p})
	}
	docs7 := func() []*doc.Tree {
		return trees("V7names", &doc.Universe{MinN: 0, MaxN: 2, Names: []string{"a", "a-1", "a.b", "a1", "a-b", "a-1-1"}, NoComment: true,
			Attr: "rule", AttrNames: []string{"a-1", "a.b"}, Vals: []string{"1", "2"}})
	}
	env := func(e *ref.Env) { e.SumNumericOnly = true; e.ModDomainOnly = true; e.StringNumSmall = true }
	ev := &evalCfg{Prop: "C08", Ops: []string{"evaluate"}, Mode: "seq", Env: env}
	n := 2
	if tier == "thorough" {
		n = 3
	}
	vals := []string{"1", "2", "x", "", "0.5", " 3 ", " -2", "4."}
	docs := func() []*doc.Tree { return uniV(n, vals) }
	sp := []*explore.Space{
		exprSpace("A0", "every Number token over digits {0,1,2,3,5,7,9} and '.' up to the length bound: value, string(), token boundary, equality with its canonical spelling", a0,
			func() []*doc.Tree { return uniV(1, vals[:2]) }, ev),
		exprSpace("A1", "leaves, unary minus x1..3, floor/ceiling", a1, docs, ev),
		exprSpace("A2", "one binary operator over all leaf pairs", a2, docs, ev),
		exprSpace("A3", "two binary operators (with and without parentheses) over the reduced leaves", a3, docs, ev),
		exprSpace("A4", "string() of numbers", a4, docs, ev),
		exprSpace("A7", "count/sum/number and - + * div over nodes named a-1, a.b, a1, a-b, a-1-1 (names containing operator characters and digits)", a7, docs7, ev),
		exprSpace("A6", "arithmetic over candidate-dependent leaves inside a predicate (several candidates per evaluation)", hostExprs(a6), docs,
			&evalCfg{Prop: "C08", Ops: []string{"select"}, Mode: "set", Env: env, Base: func(i int) gen.Expr { return a6[i].base }}),
	}
	if tier == "thorough" {
		var a5 []gen.Expr
		red := small[:7]
		for _, o1 := range arith {
			for _, o2 := range arith {
				for _, o3 := range arith {
					for _, x := range red {
						for _, y := range red {
							for _, z := range red {
								for _, u := range red {
									a5 = append(a5, gen.B(o3, gen.B(o2, gen.B(o1, x, y), z), u), gen.B(o2, gen.B(o1, x, y), gen.B(o3, z, u)))
								}
							}
						}
					}
				}
			}
		}
		sp = append(sp, exprSpace("A5", "three binary operators over 7 leaves", a5, func() []*doc.Tree { return uniV(2, vals) }, ev))
	}
	return sp
}

func init() {
	explore.Register(&explore.Property{
		ID: "C08", Level: "exploration",
		Rule: "A0: EVERY Number token (Digits, Digits., Digits.Digits, .Digits) over digits {0,1,2,3,5,7,9} up to 4 (thorough: 5) characters: value, string(), next to an operator, equal to its canonical spelling; all arithmetic expression trees with <= 2 (thorough: 3) binary operators over number literals, count/sum/number/string-length of flat paths, number('v') for the XPath number lexeme and its near misses, unary minus chains, floor/ceiling, and string() of numbers, evaluated on every document of a value universe from every context node and compared bit-for-bit (up to NaN payload) with the reference; mod outside non-negative integers, sum() over non-numeric nodes and string() of non-finite/large numbers are outside the property and skipped (counted); distinct = distinct expressions",
		Assumptions:    []string{"hand-written reference evaluator (XPath number lexer/printer)", "lawful NodeNavigator", "bounded expression depth and value alphabet"},
		Budget:         budget(90*time.Second, 20*time.Minute),
		MinRefOutcomes: 2,
		Spaces:         c08Spaces,
	})
}

package props

import (
	"time"

	"verif/mc/doc"
	"verif/mc/explore"
	"verif/mc/gen"
)

func relPath(steps ...gen.Step) *gen.Path { return &gen.Path{Steps: steps} }

// boolAtoms: the boolean-valued predicate atoms of C02, relative to the
// candidate node.
func boolAtoms() []gen.Expr {
	var out []gen.Expr
	// existence of 1-step paths: 12 axes x {a, node()}
	for _, ax := range gen.Axes {
		for _, t := range []string{"a", "node()"} {
			out = append(out, relPath(gen.St(ax, t)))
		}
	}
	// existence of 2-step paths
	for _, ax := range gen.Axes {
		out = append(out, relPath(gen.St(ax, "node()"), gen.Ch("a")))
		out = append(out, relPath(gen.Ch("node()"), gen.St(ax, "node()")))
	}
	cmpPaths := []gen.Expr{relPath(gen.Dot()), relPath(gen.At("a")), relPath(gen.At("x")), relPath(gen.Ch("a")), relPath(gen.Ch("text()")), relPath(gen.Ch("*"))}
	for _, p := range cmpPaths {
		for _, v := range []string{"1", "2", "x", ""} {
			out = append(out, gen.B("=", p, gen.S(v)), gen.B("!=", p, gen.S(v)))
		}
	}
	for _, p := range []gen.Expr{relPath(gen.Dot()), relPath(gen.At("a")), relPath(gen.Ch("a"))} {
		for _, op := range []string{"<", "<=", ">", ">="} {
			for _, n := range []float64{1, 2} {
				out = append(out, gen.B(op, p, gen.N(n)))
			}
		}
	}
	for _, p := range []gen.Expr{relPath(gen.Ch("*")), relPath(gen.At("*")), relPath(gen.St("ancestor", "*"))} {
		for _, op := range []string{"=", ">"} {
			for _, n := range []float64{0, 1} {
				out = append(out, gen.B(op, gen.F("count", p), gen.N(n)))
			}
		}
	}
	for _, p := range []gen.Expr{relPath(gen.Dot()), relPath(gen.At("a")), relPath(gen.Ch("text()"))} {
		for _, v := range []string{"1", "x", ""} {
			out = append(out, gen.F("contains", p, gen.S(v)), gen.F("starts-with", p, gen.S(v)))
		}
	}
	out = append(out, gen.B("=", gen.F("local-name"), gen.S("a")), gen.B("=", gen.F("local-name"), gen.S("b")),
		gen.F("true"), gen.F("false"))
	// both arguments depend on the candidate (nothing may be cached across candidates)
	dep := []gen.Expr{gen.F("local-name"), gen.F("name"), gen.F("string", relPath(gen.At("a"))), gen.F("string", relPath(gen.Dot())), gen.F("concat", relPath(gen.At("x")), gen.S("")),
		gen.F("substring", relPath(gen.Dot()), gen.N(1), gen.N(1)), gen.F("local-name", relPath(gen.DotDot())), gen.F("string", relPath(gen.Ch("*")))}
	for _, p := range []gen.Expr{relPath(gen.Dot()), relPath(gen.At("a")), relPath(gen.At("x")), relPath(gen.Ch("text()")), gen.F("local-name"), gen.F("string", relPath(gen.DotDot()))} {
		for _, d := range dep {
			out = append(out, gen.F("contains", p, d), gen.F("starts-with", p, d), gen.B("=", p, d), gen.B("!=", d, p))
		}
	}
	for _, d := range dep {
		out = append(out, gen.B("=", gen.F("count", relPath(gen.Ch("*"))), gen.F("string-length", d)), gen.B(">", gen.F("count", relPath(gen.At("*"))), gen.F("count", relPath(gen.Ch("*")))))
	}
	return out
}

// existence atoms (used inside compounds)
func existAtoms() []gen.Expr {
	var out []gen.Expr
	for _, ax := range gen.Axes {
		for _, t := range []string{"a", "node()"} {
			out = append(out, relPath(gen.St(ax, t)))
		}
	}
	return out
}

func smallAtoms() []gen.Expr {
	return []gen.Expr{
		relPath(gen.Ch("a")), relPath(gen.At("a")), relPath(gen.St("ancestor", "a")), relPath(gen.St("following-sibling", "node()")),
		relPath(gen.St("preceding-sibling", "node()")), relPath(gen.St("following", "a")), relPath(gen.St("preceding", "a")),
		relPath(gen.St("descendant", "a")), relPath(gen.St("parent", "a")),
		gen.B("=", relPath(gen.Dot()), gen.S("1")), gen.B("!=", relPath(gen.At("a")), gen.S("1")), gen.B(">", relPath(gen.Dot()), gen.N(1)),
		gen.B("=", gen.F("count", relPath(gen.Ch("*"))), gen.N(1)), gen.F("contains", relPath(gen.Dot()), gen.S("1")),
		gen.B("=", gen.F("local-name"), gen.S("a")), gen.F("not", relPath(gen.Ch("a"))), gen.F("not", relPath(gen.St("ancestor", "a"))),
		gen.F("true"), gen.F("false"),
		gen.B("<", gen.N(1), relPath(gen.At("a"))), gen.B(">=", gen.N(2), relPath(gen.Dot())), gen.B("<=", gen.N(1), gen.F("count", relPath(gen.Ch("*")))),
	}
}

func withPred(s gen.Step, preds ...gen.Expr) gen.Step {
	s.Preds = append(append([]gen.Expr{}, s.Preds...), preds...)
	return s
}

// reprHosts: a representative set of predicated steps.
func reprHosts() []gen.Step {
	var out []gen.Step
	for _, ax := range gen.Axes {
		out = append(out, gen.St(ax, "node()"))
	}
	out = append(out, gen.Ch("a"), gen.Ch("*"), gen.At("a"), gen.Dot(), gen.DotDot())
	return out
}

type hostCase struct {
	with, base gen.Expr
}

func hostSpace(name, desc string, cases []hostCase, docs func() []*doc.Tree, prop string) *explore.Space {
	exprs := make([]gen.Expr, len(cases))
	for i, c := range cases {
		exprs[i] = c.with
	}
	return exprSpace(name, desc, exprs, docs, &evalCfg{Prop: prop, Ops: []string{"select"}, Mode: "set",
		Base: func(i int) gen.Expr { return cases[i].base }})
}

// prefixes used before a predicated host step
func hostPrefixes() [][]gen.Step {
	return [][]gen.Step{
		{gen.Ch("a")}, {gen.St("descendant", "node()")}, {gen.St("following", "node()")}, {gen.St("ancestor", "a")}, {gen.DSlash()},
	}
}

func c02Spaces(tier string) []*explore.Space {
	atoms := boolAtoms()
	forms := stepForms(allTests, true)
	var p1 []hostCase
	for _, h := range forms {
		for _, a := range atoms {
			p1 = append(p1, hostCase{relPath(withPred(h, a)), relPath(h)})
		}
	}
	// P2: compounds over existence atoms on representative hosts
	var p2 []hostCase
	ex := existAtoms()
	for _, h := range reprHosts() {
		for _, a := range ex {
			p2 = append(p2, hostCase{relPath(withPred(h, gen.F("not", a))), relPath(h)})
			for _, b := range ex {
				p2 = append(p2, hostCase{relPath(withPred(h, gen.B("and", a, b))), relPath(h)})
				p2 = append(p2, hostCase{relPath(withPred(h, gen.B("or", a, b))), relPath(h)})
			}
		}
	}
	// and/or whose direct operands are number- or string-valued (converted by boolean())
	conv := []gen.Expr{gen.F("count", relPath(gen.Ch("*"))), gen.N(1), gen.N(0), gen.S("x"), gen.S(""), gen.F("string", relPath(gen.At("a"))), gen.F("local-name"),
		gen.B("-", gen.F("count", relPath(gen.Ch("*"))), gen.N(1)), gen.F("string-length", relPath(gen.Dot())), gen.B("div", gen.N(0), gen.N(0))}
	for _, h := range []gen.Step{gen.Ch("*"), gen.St("descendant-or-self", "node()"), gen.Ch("node()"), gen.At("*")} {
		for _, c := range conv {
			for _, a := range []gen.Expr{relPath(gen.Ch("a")), relPath(gen.At("a")), gen.B("=", relPath(gen.Dot()), gen.S("1")), gen.F("true"), gen.F("false")} {
				for _, op := range []string{"and", "or"} {
					p2 = append(p2, hostCase{relPath(withPred(h, gen.B(op, c, a))), relPath(h)}, hostCase{relPath(withPred(h, gen.B(op, a, c))), relPath(h)})
				}
			}
			for _, c2 := range conv[:5] {
				p2 = append(p2, hostCase{relPath(withPred(h, gen.B("and", c, c2))), relPath(h)}, hostCase{relPath(withPred(h, gen.B("or", c, c2))), relPath(h)})
			}
		}
	}
	// P3: prefix / host x atoms, relative and absolute; parenthesised hosts
	var p3 []hostCase
	for _, pre := range hostPrefixes() {
		for _, h := range reprHosts() {
			for _, a := range atoms {
				for _, abs := range []bool{false, true} {
					if pre[0].Abbr == "//" && !abs {
						continue // a relative path cannot start with //
					}
					ws := append(append([]gen.Step{}, pre...), withPred(h, a))
					bs := append(append([]gen.Step{}, pre...), h)
					p3 = append(p3, hostCase{&gen.Path{Abs: abs, Steps: ws}, &gen.Path{Abs: abs, Steps: bs}})
				}
			}
		}
	}
	for _, h := range reprHosts() {
		for _, a := range atoms {
			p3 = append(p3, hostCase{&gen.Filter{Primary: &gen.Group{E: relPath(h)}, Preds: []gen.Expr{a}}, relPath(h)})
		}
	}
	// P4: two predicates and nesting
	var p4 []hostCase
	sm := smallAtoms()
	hosts4 := []gen.Step{gen.Ch("*"), gen.St("descendant", "*"), gen.St("ancestor", "*"), gen.St("following-sibling", "node()"),
		gen.St("preceding", "node()"), gen.St("descendant-or-self", "node()")}
	for _, h := range hosts4 {
		for _, a := range sm {
			for _, b := range sm {
				p4 = append(p4, hostCase{relPath(withPred(h, a, b)), relPath(h)})
			}
		}
		for _, ax := range gen.Axes {
			for _, a := range sm {
				inner := relPath(withPred(gen.St(ax, "node()"), a))
				p4 = append(p4, hostCase{relPath(withPred(h, inner)), relPath(h)})
				p4 = append(p4, hostCase{relPath(withPred(h, gen.F("not", inner))), relPath(h)})
			}
		}
	}
	// parenthesised path followed by two / three boolean predicates: (P)[A][B], (P)[A][B][C],
	// also as a function argument and inside another predicate
	for _, h := range []gen.Step{gen.Ch("*"), gen.St("descendant", "*"), gen.Ch("node()")} {
		g := &gen.Group{E: relPath(h)}
		for _, a := range sm {
			for _, b := range sm {
				p4 = append(p4, hostCase{&gen.Filter{Primary: g, Preds: []gen.Expr{a, b}}, relPath(h)})
			}
		}
		for _, a := range sm[:6] {
			for _, b := range sm[:6] {
				for _, c := range sm[:6] {
					p4 = append(p4, hostCase{&gen.Filter{Primary: g, Preds: []gen.Expr{a, b, c}}, relPath(h)})
				}
				// candidate kept iff its filtered children exist / their count is 1
				p4 = append(p4, hostCase{relPath(withPred(gen.St("descendant-or-self", "node()"), &gen.Filter{Primary: g, Preds: []gen.Expr{a, b}})), relPath(gen.St("descendant-or-self", "node()"))})
				p4 = append(p4, hostCase{relPath(withPred(gen.St("descendant-or-self", "node()"), gen.B("=", gen.F("count", &gen.Filter{Primary: g, Preds: []gen.Expr{a, b}}), gen.N(1)))), relPath(gen.St("descendant-or-self", "node()"))})
			}
		}
	}
	// absolute //host[A][B]
	for _, a := range sm {
		for _, b := range sm {
			p4 = append(p4, hostCase{gen.AbsP(gen.DSlash(), gen.Ch("*", a, b)), gen.AbsP(gen.DSlash(), gen.Ch("*"))})
		}
	}
	// P5: existence of two-step paths over ALL axis pairs, and of paths whose
	// last step carries a nested predicate (nesting depth 2)
	var p5 []hostCase
	hosts5 := []gen.Step{gen.Ch("*"), gen.St("descendant-or-self", "node()"), gen.St("descendant", "*"), gen.St("following", "node()"), gen.St("ancestor-or-self", "node()"), gen.Ch("node()")}
	for _, h := range hosts5 {
		for _, a1 := range gen.Axes {
			for _, a2 := range gen.Axes {
				for _, tt := range [][2]string{{"node()", "node()"}, {"a", "node()"}, {"*", "a"}} {
					p5 = append(p5, hostCase{relPath(withPred(h, relPath(gen.St(a1, tt[0]), gen.St(a2, tt[1])))), relPath(h)})
				}
				p5 = append(p5, hostCase{relPath(withPred(h, gen.F("not", relPath(gen.St(a1, "node()"), gen.St(a2, "a"))))), relPath(h)})
			}
		}
		for _, inner := range sm {
			for _, first := range []gen.Step{gen.Ch("*"), gen.Ch("a"), gen.St("descendant", "*"), gen.St("following-sibling", "*"), gen.DotDot()} {
				for _, second := range []gen.Step{gen.Ch("*"), gen.Ch("node()"), gen.At("*"), gen.St("descendant", "node()")} {
					p5 = append(p5, hostCase{relPath(withPred(h, relPath(first, withPred(second, inner)))), relPath(h)})
				}
			}
		}
	}
	// P6: comparisons whose BOTH operands depend on the candidate (count()
	// against count(), path against path), the left one walking a long axis
	var p6 []hostCase
	for _, h := range hosts5 {
		for _, ax := range gen.Axes {
			lefts := []gen.Expr{gen.F("count", relPath(gen.St(ax, "node()"))), gen.F("count", relPath(gen.St(ax, "a"))), relPath(gen.St(ax, "node()")), relPath(gen.St(ax, "*", relPath(gen.At("*"))))}
			rights := []gen.Expr{gen.F("count", relPath(gen.Ch("*"))), gen.F("count", relPath(gen.At("*"))), relPath(gen.Dot()), relPath(gen.At("a")), relPath(gen.Ch("a")), gen.F("string-length", relPath(gen.Dot()))}
			for _, l := range lefts {
				for _, r := range rights {
					for _, op := range []string{"=", "!=", ">"} {
						if _, isPath := l.(*gen.Path); isPath && op == ">" {
							continue
						}
						p6 = append(p6, hostCase{relPath(withPred(h, gen.B(op, l, r))), relPath(h)})
					}
				}
			}
		}
	}
	// P7: and/or/not whose operands are multi-step paths with a predicate on the
	// last step (the engine walks these with the shared context cursor): each
	// operand must be evaluated from the candidate, whatever the other one did
	var p7 []hostCase
	var movers []gen.Expr
	for _, first := range []gen.Step{gen.Ch("*"), gen.Ch("a"), gen.St("descendant", "*"), gen.DotDot()} {
		for _, second := range []gen.Step{gen.Ch("*"), gen.At("*"), gen.DotDot(), gen.St("following-sibling", "*"), gen.St("self", "*")} {
			for _, lp := range []gen.Expr{gen.F("not", relPath(gen.Ch("*"))), gen.F("contains", relPath(gen.Dot()), gen.S("1")), gen.N(1), gen.F("true"), relPath(gen.At("a"))} {
				movers = append(movers, relPath(first, withPred(second, lp)))
			}
		}
	}
	for _, h := range []gen.Step{gen.Ch("*"), gen.St("descendant-or-self", "node()"), gen.Ch("node()")} {
		for _, m := range movers {
			for _, b := range sm[:9] {
				for _, op := range []string{"and", "or"} {
					p7 = append(p7, hostCase{relPath(withPred(h, gen.B(op, m, b))), relPath(h)}, hostCase{relPath(withPred(h, gen.B(op, b, m))), relPath(h)})
				}
			}
			p7 = append(p7, hostCase{relPath(withPred(h, gen.B("and", gen.F("not", m), relPath(gen.Ch("a"))))), relPath(h)})
		}
	}
	// P8: a predicated step that is NOT the last step: every candidate that passes
	// the predicate must be handed on to the following step(s), nested candidates included
	var p8 []hostCase
	for _, pre := range [][]gen.Step{nil, {gen.Ch("*")}, {gen.DSlash()}} {
		for _, h := range []gen.Step{gen.St("descendant", "a"), gen.St("descendant", "*"), gen.St("descendant-or-self", "*"), gen.St("descendant-or-self", "node()"), gen.Ch("*"), gen.Ch("a"),
			gen.St("ancestor", "*"), gen.St("following", "*"), gen.St("preceding-sibling", "node()")} {
			for _, a := range sm {
				for _, cont := range [][]gen.Step{{gen.St("descendant", "a")}, {gen.St("descendant", "node()")}, {gen.Ch("*")}, {gen.At("*")}, {gen.DotDot()}, {gen.St("descendant-or-self", "node()")},
					{gen.St("following-sibling", "*")}, {gen.DSlash(), gen.Ch("a")}, {gen.St("ancestor", "a")}, {gen.Ch("*"), gen.St("descendant", "*")}} {
					abs := len(pre) > 0 && pre[0].Abbr == "//"
					ws := append(append(append([]gen.Step{}, pre...), withPred(h, a)), cont...)
					bs := append(append(append([]gen.Step{}, pre...), h), cont...)
					p8 = append(p8, hostCase{&gen.Path{Abs: abs, Steps: ws}, &gen.Path{Abs: abs, Steps: bs}})
				}
			}
		}
	}
	t3 := func() []*doc.Tree { return uniT(3) }
	t4 := func() []*doc.Tree { return uniT(4) }
	if tier == "thorough" {
		return []*explore.Space{
			hostSpace("P1xT4", "every step form [atom] x T(<=4)", p1, t4, "C02"),
			hostSpace("P2xT3", "representative hosts [not/and/or over existence atoms] x T(<=3)", p2, t3, "C02"),
			hostSpace("P3xT4", "prefix/host[atom], absolute+relative, (host)[atom] x T(<=4)", p3, t4, "C02"),
			hostSpace("P4xT4", "two predicates, nested predicates x T(<=4)", p4, t4, "C02"),
			hostSpace("P5xT4", "existence of two-step paths over all 144 axis pairs, paths with a nested predicate on the last step x T(<=4)", p5, t4, "C02"),
			hostSpace("P6xT4", "comparisons with two candidate-dependent operands (count vs count, path vs path) x T(<=4)", p6, t4, "C02"),
			hostSpace("P7xT4", "and/or with a multi-step path carrying a last-step predicate as one operand, both orders x T(<=4)", p7, t4, "C02"),
			hostSpace("P8xT4", "prefix/host[atom]/continuation: a predicated step followed by further steps x T(<=4)", p8, t4, "C02"),
			hostSpace("P8/4xDeep6", "fixed stratum (every 4th) of predicated step followed by further steps x spine documents", strideCases(p8, 4), func() []*doc.Tree { return uniDeep(6) }, "C02"),
			hostSpace("P1xDeep7", "step[atom] x spine documents of depth 4..7", p1, func() []*doc.Tree { return uniDeep(7) }, "C02"),
			hostSpace("P5/4xDeep6", "fixed stratum of two-step existence / nested predicates x spine documents", strideCases(p5, 4), func() []*doc.Tree { return uniDeep(6) }, "C02"),
		}
	}
	// quick: P2 restricted to a fixed 1/8 stratum (every 8th compound)
	var p2q []hostCase
	for i := 0; i < len(p2); i += 8 {
		p2q = append(p2q, p2[i])
	}
	var p3q []hostCase
	for i := 0; i < len(p3); i += 4 {
		p3q = append(p3q, p3[i])
	}
	var p4q []hostCase
	for i := 0; i < len(p4); i += 2 {
		p4q = append(p4q, p4[i])
	}
	return []*explore.Space{
		hostSpace("P1xT3", "every step form [atom] x T(<=3)", p1, t3, "C02"),
		hostSpace("P2/8xT3", "fixed stratum (every 8th) of hosts [not/and/or over existence atoms] x T(<=3)", p2q, t3, "C02"),
		hostSpace("P3/4xT3", "fixed stratum (every 4th) of prefix/host[atom] and (host)[atom] x T(<=3)", p3q, t3, "C02"),
		hostSpace("P4/2xT3", "fixed stratum (every 2nd) of two-predicate and nested-predicate hosts x T(<=3)", p4q, t3, "C02"),
		hostSpace("P5/3xT3", "fixed stratum (every 3rd) of: existence of two-step paths over all 144 axis pairs, paths with a nested predicate on the last step x T(<=3)", strideCases(p5, 3), t3, "C02"),
		hostSpace("P6/2xT3", "fixed stratum (every 2nd) of comparisons with two candidate-dependent operands x T(<=3)", strideCases(p6, 2), t3, "C02"),
		hostSpace("P7xT3", "and/or with a multi-step path carrying a last-step predicate as one operand, both orders x T(<=3)", p7, t3, "C02"),
		hostSpace("P8xT3", "prefix/host[atom]/continuation: a predicated step followed by further steps x T(<=3)", p8, t3, "C02"),
		hostSpace("P8/8xDeep5", "fixed stratum (every 8th) of predicated step followed by further steps x spine documents of depth 4..5", strideCases(p8, 8), func() []*doc.Tree { return uniDeep(5) }, "C02"),
		hostSpace("P1/4xDeep6", "fixed stratum (every 4th) of step[atom] x spine documents of depth 4..6", strideCases(p1, 4), func() []*doc.Tree { return uniDeep(6) }, "C02"),
	}
}

func hostExprs(c []hostCase) []gen.Expr {
	out := make([]gen.Expr, len(c))
	for i := range c {
		out[i] = c[i].with
	}
	return out
}

func strideCases(c []hostCase, k int) []hostCase {
	var out []hostCase
	for i := 0; i < len(c); i += k {
		out = append(out, c[i])
	}
	return out
}

func init() {
	explore.Register(&explore.Property{
		ID: "C02", Level: "exploration",
		Rule: "every predicated step of named finite slices (hosts: all step forms, prefixes, parenthesised hosts; predicates: path existence over 12 axes, =/!= literals, numeric relations, count/contains/starts-with/local-name, not/and/or, two predicates, nesting depth 2; parenthesised paths with 2-3 predicates, also as argument / inside a predicate; and/or whose operands are multi-step paths with a last-step predicate, both orders) is evaluated on every document of the universe from every context node and compared as a node set with the reference; non-trivial = the predicates keep a strict non-empty subset of the host's candidates; distinct = distinct expressions with a non-trivial case",
		Assumptions:    []string{"hand-written reference evaluator", "lawful NodeNavigator", "bounded trees and predicate nesting <= 2"},
		Budget:         budget(240*time.Second, 30*time.Minute),
		MinRefOutcomes: 2,
		Spaces:         c02Spaces,
	})
}

// Package props defines, per property, the finite spaces that are explored
// and the oracle applied to every case.
package props

import (
	"encoding/json"
	"fmt"
	"strings"
	"sync"
	"time"

	"github.com/antchfx/xpath"

	"verif/mc/doc"
	"verif/mc/eng"
	"verif/mc/gen"
	"verif/mc/ref"
	"verif/mc/report"
)

func budget(q, t time.Duration) func(string) time.Duration {
	return func(tier string) time.Duration {
		if tier == "thorough" {
			return t
		}
		return q
	}
}

// universe cache (each process builds a universe once)
var (
	uniMu    sync.Mutex
	uniCache = map[string][]*doc.Tree{}
)

func trees(key string, u *doc.Universe) []*doc.Tree {
	uniMu.Lock()
	defer uniMu.Unlock()
	if t, ok := uniCache[key]; ok {
		return t
	}
	t := u.All()
	uniCache[key] = t
	return t
}

// std universes ---------------------------------------------------------

// uniT is T(<=n) over names {a,b}, text and comment leaves, rule attributes
// named {a,x} (an attribute called "a" must never satisfy the element name
// test "a"), values cycling through V.
func uniT(n int) []*doc.Tree {
	return trees(fmt.Sprintf("T%d", n), &doc.Universe{MinN: 0, MaxN: n, Names: []string{"a", "b"},
		Attr: "rule", AttrNames: []string{"a", "x"}, Vals: []string{"1", "2", "x", ""}})
}

// uniDeep: "spine" documents — a chain of k nested elements (names over {a,b}),
// k = 4..maxDepth, optionally with one extra leaf (element a, text, comment)
// attached below one spine element, attributes by rule. Small in number, deep
// in structure: reaches depth thresholds the T(<=N) universes cannot.
func uniDeep(maxDepth int) []*doc.Tree {
	key := fmt.Sprintf("Deep%d", maxDepth)
	uniMu.Lock()
	if t, ok := uniCache[key]; ok {
		uniMu.Unlock()
		return t
	}
	uniMu.Unlock()
	var out []*doc.Tree
	leaves := []doc.Spec{{K: "e", N: "a"}, {K: "t", V: "1"}, {K: "c", V: "2"}}
	for k := 4; k <= maxDepth; k++ {
		for code := 0; code < 1<<uint(k); code++ {
			names := make([]string, k)
			for i := range names {
				names[i] = []string{"a", "b"}[code>>uint(i)&1]
			}
			if code%3 != 0 && k > 4 {
				continue // a fixed third of the name assignments for the longer spines
			}
			build := func(extraAt int, leaf *doc.Spec, before bool) *doc.Tree {
				var mk func(i int) doc.Spec
				mk = func(i int) doc.Spec {
					s := doc.Spec{K: "e", N: names[i]}
					switch i % 4 {
					case 1:
						s.A = []doc.AttrS{{N: "a", V: "1"}}
					case 2:
						s.A = []doc.AttrS{{N: "a", V: "2"}, {N: "x", V: "x"}}
					}
					var kids []doc.Spec
					if i+1 < k {
						kids = append(kids, mk(i+1))
					}
					if leaf != nil && extraAt == i {
						if before {
							kids = append([]doc.Spec{*leaf}, kids...)
						} else {
							kids = append(kids, *leaf)
						}
					}
					s.C = kids
					return s
				}
				return doc.Build([]doc.Spec{mk(0)})
			}
			out = append(out, build(-1, nil, false))
			for at := 0; at < k; at++ {
				for li := range leaves {
					if (at+li+code)%2 == 0 {
						out = append(out, build(at, &leaves[li], (at+li)%2 == 0))
					}
				}
			}
		}
	}
	uniMu.Lock()
	uniCache[key] = out
	uniMu.Unlock()
	return out
}

// uniWide: one parent element with 5..maxKids children over {a, b, text}.
func uniWide(maxKids int) []*doc.Tree {
	key := fmt.Sprintf("Wide%d", maxKids)
	uniMu.Lock()
	if t, ok := uniCache[key]; ok {
		uniMu.Unlock()
		return t
	}
	uniMu.Unlock()
	var out []*doc.Tree
	vals := []string{"1", "2", "x"}
	for n := 5; n <= maxKids; n++ {
		total := 1
		for i := 0; i < n; i++ {
			total *= 3
		}
		for code := 0; code < total; code++ {
			c := code
			var kids []doc.Spec
			for i := 0; i < n; i++ {
				switch c % 3 {
				case 0:
					kids = append(kids, doc.Spec{K: "e", N: "a", A: attrIf(i%2 == 0, "a", vals[i%3])})
				case 1:
					kids = append(kids, doc.Spec{K: "e", N: "b"})
				default:
					kids = append(kids, doc.Spec{K: "t", V: vals[i%3]})
				}
				c /= 3
			}
			out = append(out, doc.Build([]doc.Spec{{K: "e", N: "b", C: []doc.Spec{{K: "e", N: "a", C: kids}}}}))
		}
	}
	uniMu.Lock()
	uniCache[key] = out
	uniMu.Unlock()
	return out
}

// uniFlatNS: two parents, each with 1..maxKids children whose names range over
// {a, p:a, q:a, b} (same local name under different prefixes side by side) —
// what a sibling count must tell apart.
func uniFlatNS(maxKids int) []*doc.Tree {
	key := fmt.Sprintf("FlatNS%d", maxKids)
	uniMu.Lock()
	if t, ok := uniCache[key]; ok {
		uniMu.Unlock()
		return t
	}
	uniMu.Unlock()
	names := []string{"a", "p:a", "q:a", "b"}
	var out []*doc.Tree
	for n := 1; n <= maxKids; n++ {
		total := 1
		for i := 0; i < n; i++ {
			total *= len(names)
		}
		for code := 0; code < total; code++ {
			c := code
			var kids []doc.Spec
			for i := 0; i < n; i++ {
				kids = append(kids, doc.Spec{K: "e", N: names[c%len(names)], A: attrIf(i%2 == 1, "a", "1")})
				c /= len(names)
			}
			// second parent: the same children rotated by one (another count per name)
			rot := append(append([]doc.Spec{}, kids[1:]...), doc.Spec{K: "e", N: "a"})
			out = append(out, doc.Build([]doc.Spec{{K: "e", N: "b", C: []doc.Spec{{K: "e", N: "a", C: kids}, {K: "e", N: "p:a", C: rot}}}}))
		}
	}
	uniMu.Lock()
	uniCache[key] = out
	uniMu.Unlock()
	return out
}

// uniMixedWS: one parent with 1..maxKids children over {element a, text " ",
// text "x", text "\n  ", comment ""}: mixed content as a pretty-printed
// document has it.
func uniMixedWS(maxKids int) []*doc.Tree {
	key := fmt.Sprintf("MixedWS%d", maxKids)
	uniMu.Lock()
	if t, ok := uniCache[key]; ok {
		uniMu.Unlock()
		return t
	}
	uniMu.Unlock()
	kinds := []doc.Spec{{K: "e", N: "a"}, {K: "t", V: " "}, {K: "t", V: "x"}, {K: "t", V: "\n  "}, {K: "c", V: ""}}
	var out []*doc.Tree
	for n := 1; n <= maxKids; n++ {
		total := 1
		for i := 0; i < n; i++ {
			total *= len(kinds)
		}
		for code := 0; code < total; code++ {
			c := code
			var kids []doc.Spec
			for i := 0; i < n; i++ {
				kids = append(kids, kinds[c%len(kinds)])
				c /= len(kinds)
			}
			out = append(out, doc.Build([]doc.Spec{{K: "e", N: "b", C: kids}}))
		}
	}
	uniMu.Lock()
	uniCache[key] = out
	uniMu.Unlock()
	return out
}

func uniTExact(n int) []*doc.Tree {
	return trees(fmt.Sprintf("TE%d", n), &doc.Universe{MinN: n, MaxN: n, Names: []string{"a", "b"},
		Attr: "rule", AttrNames: []string{"a", "x"}, Vals: []string{"1", "2", "x", ""}})
}

// evalCase is the generic "evaluate one expression on one document from one
// context" case.
type evalCase struct {
	Expr   string
	AST    gen.Expr
	WithNS bool
	NS     map[string]string
	NavNS  bool
	T      *doc.Tree
	Ctx    int
	Op     string // select | evaluate
	Mode   string // set | seq | value
}

func (ec *evalCase) toCase(kind, expected, got, class, sig string) *report.Case {
	return &report.Case{Kind: kind, Expr: ec.Expr, WithNS: ec.WithNS, NS: ec.NS, NavNS: ec.NavNS,
		Tree: ec.T.ToSpec(), TreeS: ec.T.String(), Ctx: ec.Ctx, CtxS: ec.T.Describe(ec.Ctx), Op: ec.Op, Mode: ec.Mode,
		Expected: expected, Got: got, Class: class, Sig: sig, Weight: ec.T.Len()*1000 + len(ec.Expr)}
}

// normalise renders an outcome under a comparison mode.
func normalise(o eng.Outcome, mode string) string {
	if o.Kind == "nodes" && mode == "set" {
		return fmt.Sprintf("nodes:%v", eng.AsSet(o.Nodes))
	}
	if o.Kind == "nodes" && mode == "bag" {
		return fmt.Sprintf("nodes:%v", eng.SortedBag(o.Nodes))
	}
	return o.String()
}

func runOp(e *xpath.Expr, t *doc.Tree, ctx int, navNS bool, op string) eng.Outcome {
	if op == "evaluate" {
		return eng.Evaluate(e, t, ctx, navNS)
	}
	return eng.Select(e, t, ctx, navNS)
}

func init() {
	// "eval": compile afresh, run op, compare with the recorded expectation.
	// Expected forms:  "<normal form>"   exact agreement in Mode
	//                  "!<prefix>"       observed must NOT start with prefix
	report.RegisterReplayer("eval", func(c *report.Case) (string, bool, error) {
		t := doc.Build(c.Tree)
		e, err, pan := eng.Compile(c.Expr, c.WithNS, c.NS)
		if pan != nil {
			return "compile-" + pan.String(), false, nil
		}
		if err != nil {
			obs := "compile-error:" + err.Error()
			return obs, matchExpected(c.Expected, obs), nil
		}
		o := runOp(e, t, c.Ctx, c.NavNS, c.Op)
		obs := normalise(o, c.Mode)
		return obs, matchExpected(c.Expected, obs), nil
	})
}

// prevEval remembers the evaluations made so far on one compiled expression,
// so that a violation that only shows on a RE-USED expression can be replayed.
type prevEval struct {
	Tree []doc.Spec `json:"tree"`
	Ctx  int        `json:"ctx"`
	Op   string     `json:"op"`
}

type histTracker struct{ last []prevEval }

func (h *histTracker) note(t *doc.Tree, ctx int, op string) {
	h.last = append(h.last, prevEval{t.ToSpec(), ctx, op})
	if len(h.last) > 3 {
		h.last = h.last[len(h.last)-3:]
	}
}

// attach turns c into a history case: compile once, run the remembered
// evaluations, then the failing one.
func (h *histTracker) attach(c *report.Case) {
	if len(h.last) == 0 {
		return
	}
	b, _ := json.Marshal(h.last)
	c.Kind = "evalhist"
	if c.Extra == nil {
		c.Extra = map[string]interface{}{}
	}
	c.Extra["previous_evaluations_on_the_same_compiled_expression"] = string(b)
}

func init() {
	report.RegisterReplayer("evalhist", func(c *report.Case) (string, bool, error) {
		var prev []prevEval
		if s, ok := c.Extra["previous_evaluations_on_the_same_compiled_expression"].(string); ok {
			if err := json.Unmarshal([]byte(s), &prev); err != nil {
				return "", false, err
			}
		}
		e, err, pan := eng.Compile(c.Expr, c.WithNS, c.NS)
		if pan != nil || err != nil {
			return fmt.Sprint("compile: ", err, pan), false, nil
		}
		for _, p := range prev {
			runOp(e, doc.Build(p.Tree), p.Ctx, c.NavNS, p.Op)
		}
		o := runOp(e, doc.Build(c.Tree), c.Ctx, c.NavNS, c.Op)
		obs := normalise(o, c.Mode)
		return obs, matchExpected(c.Expected, obs), nil
	})
}

func matchExpected(expected, obs string) bool {
	for _, alt := range strings.Split(expected, " || ") {
		if strings.HasPrefix(alt, "!") {
			if !strings.HasPrefix(obs, alt[1:]) {
				return true
			}
			continue
		}
		if strings.HasPrefix(alt, "^") {
			if strings.HasPrefix(obs, alt[1:]) {
				return true
			}
			continue
		}
		if alt == obs {
			return true
		}
	}
	return false
}

func ctxKind(t *doc.Tree, n int) string { return t.Nodes[n].Kind.String() }

// SelfTest checks the reference model against a second, structurally defined
// implementation of the axes (partition laws of XPath 1.0 section 2.2).
func SelfTest() error {
	for _, t := range uniT(3) {
		for n := range t.Nodes {
			if err := axisLaws(t, n); err != nil {
				return fmt.Errorf("tree %s node %d: %v", t, n, err)
			}
		}
	}
	// a few fixed points of the value rules
	if ref.NumToString(1e-7) != "0.0000001" || ref.NumToString(100000) != "100000" || ref.NumToString(-0.0) != "0" {
		return fmt.Errorf("NumToString broken")
	}
	for s, w := range map[string]float64{" 7 ": 7, "-7": -7, "7.": 7, ".7": 0.7} {
		if ref.StrToNum(s) != w {
			return fmt.Errorf("StrToNum(%q)", s)
		}
	}
	for _, s := range []string{"", "x", "1e3", "+1", "Infinity", "0x10", "1 2", "-", ".", "--1"} {
		if v := ref.StrToNum(s); v == v {
			return fmt.Errorf("StrToNum(%q) should be NaN", s)
		}
	}
	if ref.Substring("12345", 1.5, 2.6, true) != "234" || ref.Substring("12345", 0, 3, true) != "12" ||
		ref.Substring("12345", -42, 1/zero(), true) != "12345" || ref.Substring("12345", zero()/zero(), 3, true) != "" {
		return fmt.Errorf("Substring broken")
	}
	return nil
}

func zero() float64 { return 0 }

func axisLaws(t *doc.Tree, n int) error {
	set := func(a []int) map[int]bool {
		m := map[int]bool{}
		for _, x := range a {
			m[x] = true
		}
		return m
	}
	anc := set(ref.Axis(t, n, "ancestor"))
	desc := set(ref.Axis(t, n, "descendant"))
	fol := set(ref.Axis(t, n, "following"))
	pre := set(ref.Axis(t, n, "preceding"))
	// partition of all non-attribute nodes (the context itself if it is not an
	// attribute is the "self" part)
	for i := range t.Nodes {
		cnt := 0
		for _, m := range []map[int]bool{anc, desc, fol, pre} {
			if m[i] {
				cnt++
			}
		}
		if i == n {
			cnt++
		}
		want := 1
		if t.Nodes[i].Kind == doc.Attr && i != n {
			want = 0
		}
		if cnt != want {
			return fmt.Errorf("partition law fails at node %d (in %d parts)", i, cnt)
		}
	}
	// structural second definitions
	// following = ancestor-or-self / following-sibling / descendant-or-self
	// (for attribute context: plus descendants of the parent element)
	f2 := map[int]bool{}
	start := n
	if t.Nodes[n].Kind == doc.Attr {
		start = t.Nodes[n].Parent
		for _, d := range ref.Axis(t, start, "descendant") {
			f2[d] = true
		}
	}
	for _, a := range ref.Axis(t, start, "ancestor-or-self") {
		for _, s := range ref.Axis(t, a, "following-sibling") {
			for _, d := range ref.Axis(t, s, "descendant-or-self") {
				f2[d] = true
			}
		}
	}
	if !sameSet(f2, fol) {
		return fmt.Errorf("following != aos/fs/dos")
	}
	p2 := map[int]bool{}
	for _, a := range ref.Axis(t, start, "ancestor-or-self") {
		for _, s := range ref.Axis(t, a, "preceding-sibling") {
			for _, d := range ref.Axis(t, s, "descendant-or-self") {
				p2[d] = true
			}
		}
	}
	if !sameSet(p2, pre) {
		return fmt.Errorf("preceding != aos/ps/dos")
	}
	// descendant = child+
	d2 := map[int]bool{}
	front := ref.Axis(t, n, "child")
	for len(front) > 0 {
		var nx []int
		for _, c := range front {
			d2[c] = true
			nx = append(nx, ref.Axis(t, c, "child")...)
		}
		front = nx
	}
	if !sameSet(d2, desc) {
		return fmt.Errorf("descendant != child+")
	}
	// mirror: x in following(n) <=> n in preceding(x) for non-attribute n, x
	if t.Nodes[n].Kind != doc.Attr {
		for x := range fol {
			if !set(ref.Axis(t, x, "preceding"))[n] {
				return fmt.Errorf("mirror law fails for %d", x)
			}
		}
	}
	// axis order: reverse axes are descending, forward ascending
	for _, ax := range gen.Axes {
		a := ref.Axis(t, n, ax)
		for i := 1; i < len(a); i++ {
			if isRev(ax) != (a[i] < a[i-1]) {
				return fmt.Errorf("axis %s not in axis order", ax)
			}
		}
	}
	return nil
}

func isRev(ax string) bool {
	switch ax {
	case "ancestor", "ancestor-or-self", "preceding", "preceding-sibling":
		return true
	}
	return false
}

func sameSet(a, b map[int]bool) bool {
	if len(a) != len(b) {
		return false
	}
	for k := range a {
		if !b[k] {
			return false
		}
	}
	return true
}

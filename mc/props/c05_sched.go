//go:build sched

package props

import (
	"context"
	"bytes"
	"encoding/json"
	"fmt"
	"os"
	"os/exec"
	"path/filepath"
	"strconv"
	"strings"
	"sync"
	"time"

	"github.com/antchfx/xpath/verifrt"

	"verif/mc/explore"
	"verif/mc/report"
	"verif/mc/scen"
	"verif/mc/sched"
)

// scenarioBound: the preemption bound completed per scenario group and tier.
func scenarioBound(group, tier string) int {
	switch group {
	case "cache": // tiny bodies
		if tier == "thorough" {
			return 4
		}
		return 3
	case "closure", "pool":
		if tier == "thorough" {
			return 3
		}
		return 2
	case "nested": // f(g(path)): short bodies
		if tier == "thorough" {
			return 3
		}
		return 2
	case "expr2": // representatives of each stateful query type
		if tier == "thorough" {
			return 3
		}
		return 2
	case "pool3": // three threads, short bodies
		if tier == "thorough" {
			return 3
		}
		return 2
	case "closurepred": // closures inside predicates: long bodies
		if tier == "thorough" {
			return 2
		}
		return 1
	case "regex": // long bodies (Compile + evaluation)
		if tier == "thorough" {
			return 2
		}
		return 1
	}
	if tier == "thorough" {
		return 2
	}
	return 1
}

func checkExecution(sc *scen.Scenario, in *scen.Instance, x *sched.Result) (string, string) {
	switch {
	case x.Diverged != "":
		return "internal", x.Diverged
	case x.Deadlock:
		return "deadlock", "no enabled thread before all threads finished"
	case x.Invariant != "":
		return "invariant", x.Invariant
	}
	for i, o := range x.Obs {
		// (decided before the expectation is computed: the same body run alone,
		// outside the scheduler, would spin without a bound)
		if strings.Contains(o, "did not terminate: more than") {
			return "hang", fmt.Sprintf("thread %d: %s", i, o)
		}
	}
	exp := in.Expect()
	for i, o := range x.Obs {
		if o != exp[i] {
			return "result", fmt.Sprintf("thread %d observed %s, alone it observes %s", i, o, exp[i])
		}
	}
	return "", ""
}

// exploreScenario runs the bounded DFS on one scenario.
func exploreScenario(sc scen.Scenario, bound int, maxExec int64, slice, nslices int, w *explore.Worker, prop string) {
	var last *scen.Instance
	mk := func() ([]func() string, func() string) {
		last = sc.Make()
		return last.Bodies, last.Invariant
	}
	// determinism proof obligation: the same schedule twice gives the same trace
	b1, i1 := mk()
	r1 := sched.Run(b1, nil, i1)
	b2, i2 := mk()
	r2 := sched.Run(b2, nil, i2)
	if fmt.Sprint(r1.Trace, r1.Obs) != fmt.Sprint(r2.Trace, r2.Obs) {
		w.InternalError("non-deterministic replay of the default schedule in scenario " + sc.Name)
		return
	}
	var viol *report.Case
	st := sched.ExploreSlice(mk, bound, maxExec, slice, nslices, func(x *sched.Result) bool {
		cls, msg := checkExecution(&sc, last, x)
		if cls == "" {
			return true
		}
		if cls == "internal" {
			w.InternalError(msg + " in " + sc.Name)
			return false
		}
		// trailing default choices need not be recorded (a replay takes choice 0 beyond the prefix)
		chs := x.Choices
		for len(chs) > 0 && chs[len(chs)-1] == 0 {
			chs = chs[:len(chs)-1]
		}
		if chs == nil {
			chs = []int{}
		}
		ch, _ := json.Marshal(chs)
		expected := "every thread terminates"
		if cls != "hang" {
			expected = fmt.Sprint(last.Expect())
		}
		pre := 0
		for i, p := range x.Points {
			if p.RunningEnabled && x.Choices[i] != 0 {
				pre++
			}
		}
		viol = &report.Case{Kind: "sched", Expr: sc.Name, Op: fmt.Sprintf("schedule with %d preemption(s), %d points", pre, len(x.Points)), Expected: expected, Got: msg, Class: cls,
			Extra: map[string]interface{}{"scenario": sc.Name, "choices": string(ch)}, Sig: prop + "|" + sc.Group + "|" + cls + "|" + scenarioKey(sc.Name), Weight: pre*1000 + len(x.Points)}
		return false
	})
	w.Count("schedules", st.Executions)
	w.Count("transitions", st.Points)
	w.Count("traces_validated_against_impl", st.Executions)
	w.Count("states", st.Points) // every scheduling point is a visited (history-identified) state
	if slice == 0 {
		w.Count(fmt.Sprintf("scenarios_bound%d_completed", st.BoundDone), 1)
	}
	if st.Capped {
		w.Count("scenarios_capped", 1)
	}
	for i := int64(0); i < st.Executions; i++ {
		w.Eval()
	}
	if len(st.Outcomes) > 0 {
		w.NonTrivialCase(sc.Name)
	}
	w.RefOutcome(sc.Group)
	w.EngOutcome(fmt.Sprintf("%d-joint-outcomes", len(st.Outcomes)))
	if viol != nil {
		w.Violation(viol)
	}
}

func scenarioKey(name string) string {
	if i := strings.Index(name, " ["); i > 0 {
		return name[:i]
	}
	return name
}

func scenarioSpace(prop string, groups map[string]bool, tier string) *explore.Space {
	var list []scen.Scenario
	for _, s := range scen.List(tier) {
		if groups[s.Group] {
			list = append(list, s)
		}
	}
	// heavy scenarios are split into slices of their schedule tree (by the
	// position of the first deviation from the default schedule)
	const nslices = 8
	return &explore.Space{
		Name: "Sched", Desc: "every interleaving of the scenario's threads up to the preemption bound, scheduling points at every statement of package xpath and every lock/pool operation (each scenario's schedule tree is split into 8 slices by the position of the first deviation)", Size: len(list) * nslices,
		Label: func(i int) string { return fmt.Sprintf("%s  slice %d/%d", list[i/nslices].Name, i%nslices, nslices) },
		Run: func(i int, w *explore.Worker) {
			sc := list[i/nslices]
			if i == 0 {
				// vacuity canary: a deliberately racy read-modify-write across a
				// scheduling point, in harness code. The explorer must find the lost
				// update with one preemption; if it does not, nothing it reports
				// about the real scenarios means anything.
				counter := 0
				mk := func() ([]func() string, func() string) {
					counter = 0
					body := func() string {
						v := counter
						verifrt.Point(-100)
						counter = v + 1
						verifrt.Point(-101)
						return fmt.Sprint(counter)
					}
					return []func() string{body, body}, nil
				}
				st := sched.Explore(mk, 1, 0, func(*sched.Result) bool { return true })
				w.Count("canary_joint_outcomes", int64(len(st.Outcomes)))
				w.Count("canary_schedules", st.Executions)
				if len(st.Outcomes) < 2 {
					w.InternalError(fmt.Sprintf("vacuous exploration: the racy canary produced %d joint outcome(s) in %d schedules", len(st.Outcomes), st.Executions))
				}
			}
			if i%nslices == 0 {
				w.Sample(sc.Name)
			}
			exploreScenario(sc, scenarioBound(sc.Group, tier), 4_000_000, i%nslices, nslices, w, prop)
		},
	}
}

// racePass runs the same scenarios free-running under the race detector.
func racePass(prop string, groups map[string]bool) func(tier string, m *explore.Merged) {
	return func(tier string, m *explore.Merged) {
		bin := filepath.Join(explore.Root(), "mc", "bin", "mcrace")
		if _, err := os.Stat(bin); err != nil {
			m.Internal = append(m.Internal, "race binary missing: "+err.Error())
			return
		}
		list := scen.List(tier)
		var idx []int
		for i, s := range list {
			if groups[s.Group] {
				idx = append(idx, i)
			}
		}
		runs := 20
		var mu sync.Mutex
		var wg sync.WaitGroup
		sem := make(chan struct{}, 16)
		raceRuns := int64(0)
		for _, i := range idx {
			wg.Add(1)
			sem <- struct{}{}
			go func(i int) {
				defer wg.Done()
				defer func() { <-sem }()
				// 20 free runs of one scenario take a second or two; a process that needs
				// more than the limit is reported as not terminating
				limit := 3 * time.Minute
				if tier == "thorough" {
					limit = 10 * time.Minute
				}
				ctx, cancel := context.WithTimeout(context.Background(), limit)
				defer cancel()
				cmd := exec.CommandContext(ctx, bin, tier, strconv.Itoa(i), strconv.Itoa(runs))
				cmd.WaitDelay = 2 * time.Second
				cmd.Env = append(os.Environ(), "GORACE=halt_on_error=0 exitcode=66 atexit_sleep_ms=0")
				var out bytes.Buffer
				cmd.Stdout, cmd.Stderr = &out, &out
				err := cmd.Run()
				mu.Lock()
				defer mu.Unlock()
				raceRuns += int64(runs)
				if err == nil {
					return
				}
				o := out.String()
				cls := "race-pass-failure"
				if ctx.Err() != nil {
					cls = "hang"
					o = fmt.Sprintf("no result within %v (20 free runs normally take seconds)\n", limit) + o
				} else if strings.Contains(o, "DATA RACE") {
					cls = "data-race"
				} else if strings.Contains(o, "WRONG RESULT") {
					cls = "result"
				}
				if len(o) > 6000 {
					o = o[:6000]
				}
				c := &report.Case{Property: prop, Kind: "race", Expr: list[i].Name, Op: "free-running -race pass", Expected: "no race report, every thread observes what it observes alone",
					Got: firstLine(o), Class: cls, Extra: map[string]interface{}{"tier": tier, "index": i, "runs": runs, "report": o},
					Sig: prop + "|race|" + cls + "|" + scenarioKey(list[i].Name), Weight: 5000, Count: 1}
				m.Viol[c.Sig] = c
			}(i)
		}
		wg.Wait()
		m.Extra["race_runs"] = raceRuns
		m.Extra["race_scenarios"] = len(idx)
	}
}

func firstLine(s string) string {
	for _, l := range strings.Split(s, "\n") {
		if strings.TrimSpace(l) != "" && !strings.HasPrefix(l, "====") {
			return l
		}
	}
	return s
}

func init() {
	report.RegisterReplayer("sched", func(c *report.Case) (string, bool, error) {
		name := c.Extra["scenario"].(string)
		var choices []int
		if err := json.Unmarshal([]byte(c.Extra["choices"].(string)), &choices); err != nil {
			return "", false, err
		}
		for _, tier := range []string{"quick", "thorough"} {
			for _, sc := range scen.List(tier) {
				if sc.Name != name {
					continue
				}
				in := sc.Make()
				x := sched.Run(in.Bodies, choices, in.Invariant)
				in2 := sc.Make()
				y := sched.Run(in2.Bodies, choices, in2.Invariant)
				if fmt.Sprint(x.Trace, x.Obs) != fmt.Sprint(y.Trace, y.Obs) {
					return "", false, fmt.Errorf("replaying the schedule twice gave different traces")
				}
				if x.Diverged != "" {
					return "", false, fmt.Errorf("%s", x.Diverged)
				}
				cls, msg := checkExecution(&sc, in, x)
				if cls == "" {
					return "every thread observed what it observes alone", true, nil
				}
				return msg, false, nil
			}
		}
		return "", false, fmt.Errorf("unknown scenario %q", name)
	})
	report.RegisterReplayer("race", func(c *report.Case) (string, bool, error) {
		bin := filepath.Join(explore.Root(), "mc", "bin", "mcrace")
		ctx, cancel := context.WithTimeout(context.Background(), 3*time.Minute)
		defer cancel()
		cmd := exec.CommandContext(ctx, bin, c.Extra["tier"].(string), fmt.Sprint(c.Extra["index"]), "20")
		cmd.WaitDelay = 2 * time.Second
		cmd.Env = append(os.Environ(), "GORACE=halt_on_error=0 exitcode=66 atexit_sleep_ms=0")
		out, err := cmd.CombinedOutput()
		if err == nil {
			return "no race report", true, nil
		}
		if ctx.Err() != nil {
			return "no result within 3m0s", false, nil
		}
		return firstLine(string(out)), false, nil
	})
	c05groups := map[string]bool{"expr": true, "compile": true, "closure": true, "closurepred": true, "three": true, "regex": true, "pool": true, "pool3": true, "expr2": true, "nested": true}
	explore.Register(&explore.Property{
		ID: "C05", Level: "model_checking",
		Rule: "explorer C: for every scenario (2 threads, thorough also 3, sharing ONE compiled expression with their own navigators on different context nodes, over ~110 expressions covering every query-node type and every function closure; concurrent Compile of expressions with constant matches() patterns against a small RegexpCache; concurrent Compile / CompileWithNS of plain expressions (valid and invalid) followed by use; string-building functions sharing the builder pool) EVERY interleaving up to the preemption bound (quick: 1 for plain paths and regex-compile bodies, 2 for closures and pool; thorough: 2, and 3 for closures and pool) is executed under a cooperative scheduler with a scheduling point before every statement of package xpath (AST instrumentation via go build -overlay) and at every lock/pool operation (blocking modelled, pool made a deterministic shared LIFO); oracle per execution: every thread observes exactly what the same call observes alone on a fresh compile; deadlock and invariant checks at every point; the default schedule is replayed twice and must give identical traces. Separately the same scenario bodies run free under `-race` (20 runs each). states/transitions = scheduling points executed, traces = executions; non-trivial/distinct = scenarios explored",
		Assumptions:    []string{"statement granularity under sequential consistency (a single Go statement is explored as atomic)", "plain-memory data races are decided by the separate free-running -race pass, not by the scheduler", "preemption bound 1-3, 2-3 threads, 5-node document"},
		Budget:         budget(300*time.Second, 60*time.Minute),
		ItemTimeout:    budget(6*time.Minute, 70*time.Minute), // one item = one scenario slice explored to its bound
		MinRefOutcomes: 1,
		WorkerProcs:    1,
		Spaces:         func(tier string) []*explore.Space { return []*explore.Space{scenarioSpace("C05", c05groups, tier)} },
		Post:           racePass("C05", c05groups),
	})
	// C16: add the concurrent cache space and the race pass to the property
	// registered by c16.go
	c16groups := map[string]bool{"cache": true, "regex": true}
	c16Extra = func(tier string) []*explore.Space {
		sp := scenarioSpace("C16", c16groups, tier)
		sp.Name = "CacheSched"
		return []*explore.Space{sp}
	}
	c16Post = racePass("C16", c16groups)
}

package props

import (
	"verif/mc/report"
	"verif/mc/ref"
	"verif/mc/eng"
	"github.com/antchfx/xpath"
	"fmt"
	"time"

	"verif/mc/doc"
	"verif/mc/explore"
	"verif/mc/gen"
)

var c09Strs = []string{"", " ", "a", "ab", "abc", "a b", "  a  b ", "a\tb\n", "12345", "aXa", "ABC", "-"}

func c09Spaces(tier string) []*explore.Space {
	var S []gen.Expr
	for _, s := range c09Strs {
		S = append(S, gen.S(s))
	}
	one := func() []*doc.Tree { return []*doc.Tree{doc.Build(nil)} }
	ev := &evalCfg{Prop: "C09", Ops: []string{"evaluate"}, Mode: "seq"}
	// F1: every function x every argument tuple over the string alphabet
	var f1 []gen.Expr
	for _, a := range S {
		f1 = append(f1, gen.F("string-length", a), gen.F("normalize-space", a), gen.F("lower-case", a), gen.F("string", a))
		for _, b := range S {
			for _, fn := range []string{"concat", "contains", "starts-with", "ends-with", "substring-before", "substring-after"} {
				f1 = append(f1, gen.F(fn, a, b))
			}
			f1 = append(f1, gen.F("string-join", a, b))
			for _, c := range S {
				f1 = append(f1, gen.F("translate", a, b, c))
			}
		}
	}
	for _, a := range S[:6] {
		for _, b := range S[:6] {
			for _, c := range S[:6] {
				f1 = append(f1, gen.F("concat", a, b, c))
			}
		}
	}
	// F2: substring(s, i) and substring(s, i, l): the whole small cube
	nums := []gen.Expr{&gen.Neg{E: lit("3", 3)}, &gen.Neg{E: lit("1", 1)}, &gen.Neg{E: lit("0.5", 0.5)}, lit("0", 0), lit("0.4", 0.4), lit("0.5", 0.5), lit("1", 1), lit("1.5", 1.5),
		lit("2", 2), lit("2.5", 2.5), lit("2.6", 2.6), lit("3", 3), lit("5", 5), lit("6", 6), lit("10", 10), lit("1000000", 1000000),
		// finite but beyond the 32- and 64-bit integer ranges
		lit("4294967296", 4294967296), lit("9223372036854775807", 9223372036854775807), lit("10000000000000000000", 1e19), &gen.Neg{E: lit("10000000000000000000", 1e19)}, lit("100000000000000000000000000000", 1e29)}
	var f2 []gen.Expr
	for _, s := range S {
		for _, i := range nums {
			f2 = append(f2, gen.F("substring", s, i))
			for _, l := range nums {
				f2 = append(f2, gen.F("substring", s, i, l))
			}
		}
	}
	// F3: chains of unary string->string wrappers
	wrappers := []func(gen.Expr) gen.Expr{
		func(e gen.Expr) gen.Expr { return gen.F("concat", e, gen.S("x")) },
		func(e gen.Expr) gen.Expr { return gen.F("substring-before", e, gen.S("b")) },
		func(e gen.Expr) gen.Expr { return gen.F("substring-after", e, gen.S("a")) },
		func(e gen.Expr) gen.Expr { return gen.F("substring", e, lit("2", 2)) },
		func(e gen.Expr) gen.Expr { return gen.F("substring", e, lit("1", 1), lit("2", 2)) },
		func(e gen.Expr) gen.Expr { return gen.F("normalize-space", e) },
		func(e gen.Expr) gen.Expr { return gen.F("translate", e, gen.S("ab"), gen.S("Ba")) },
		func(e gen.Expr) gen.Expr { return gen.F("lower-case", e) },
		func(e gen.Expr) gen.Expr { return gen.F("string", e) },
	}
	depth := 4
	if tier == "thorough" {
		depth = 5
	}
	var f3 []gen.Expr
	var rec func(e gen.Expr, d int)
	rec = func(e gen.Expr, d int) {
		if d > 0 {
			f3 = append(f3, gen.F("string-length", e), gen.F("contains", e, gen.S("a")), e)
		}
		if d == depth {
			return
		}
		for _, w := range wrappers {
			rec(w(e), d+1)
		}
	}
	for _, s := range S {
		rec(s, 0)
	}
	// F4: first argument a flat node-set path (empty, one node, several nodes)
	paths := []gen.Expr{relPath(gen.Ch("a")), relPath(gen.Ch("*")), relPath(gen.At("*")), relPath(gen.At("x")), relPath(gen.Ch("text()")), relPath(gen.Ch("nosuch")), relPath(gen.Dot()), relPath(gen.Ch("a"), gen.Ch("text()"))}
	var f4 []gen.Expr
	for _, p := range paths {
		f4 = append(f4, gen.F("string", p), gen.F("string-length", p), gen.F("normalize-space", p), gen.F("lower-case", p))
		for _, b := range []gen.Expr{gen.S(""), gen.S("a"), gen.S("b"), gen.S("a b"), gen.S(" ")} {
			for _, fn := range []string{"concat", "contains", "starts-with", "ends-with", "substring-before", "substring-after", "string-join"} {
				f4 = append(f4, gen.F(fn, p, b))
			}
			f4 = append(f4, gen.F("concat", b, p), gen.F("translate", p, b, gen.S("XY")), gen.F("substring-before", b, p), gen.F("substring-after", b, p))
		}
		for _, i := range nums[:12] {
			f4 = append(f4, gen.F("substring", p, i), gen.F("substring", p, i, lit("2", 2)))
		}
	}
	f4 = append(f4, gen.F("string"), gen.F("normalize-space"))
	// F5: the node-set argument carries its own iteration state (positional
	// predicate over a group / over another predicate); the function is
	// evaluated for several candidates of an enclosing predicate
	var f5 []hostCase
	G := func(e gen.Expr, preds ...gen.Expr) gen.Expr { return &gen.Filter{Primary: &gen.Group{E: e}, Preds: preds} }
	statefulArgs := []gen.Expr{G(relPath(gen.Ch("a")), gen.N(1)), G(relPath(gen.Ch("*")), gen.N(2)), G(relPath(gen.Ch("node()")), gen.F("last")), relPath(gen.Ch("*", relPath(gen.At("*")), gen.N(1))),
		relPath(gen.Ch("*", gen.B(">", gen.F("position"), gen.N(1)), gen.N(1))), G(relPath(gen.Ch("node()")), gen.B("=", gen.F("position"), gen.F("last"))), relPath(gen.Ch("*"), gen.Ch("*", gen.N(1))),
		G(relPath(gen.Dot(), gen.DSlash(), gen.Ch("text()")), gen.N(1))}
	for _, h := range []gen.Step{gen.Ch("*"), gen.St("descendant-or-self", "node()")} {
		for _, a := range statefulArgs {
			for _, call := range []gen.Expr{gen.B(">", gen.F("string-length", a), gen.N(0)), gen.B("!=", gen.F("normalize-space", a), gen.S("")), gen.F("contains", a, gen.S("a")), gen.F("starts-with", a, gen.S("a")),
				gen.B("=", gen.F("substring", a, gen.N(1), gen.N(1)), gen.S("a")), gen.B("=", gen.F("concat", a, gen.S("x")), gen.S("abx")), gen.B("=", gen.F("string", a), gen.S("ab")), gen.B("=", gen.F("lower-case", a), gen.S("b")),
				gen.B("=", gen.F("translate", a, gen.S("a"), gen.S("b")), gen.S("bb")), gen.B("=", gen.F("substring-before", a, gen.S("b")), gen.S("a")), gen.B("!=", gen.F("string-join", a, gen.S(",")), gen.S("")),
				gen.B("=", gen.F("substring-after", a, gen.S("a")), gen.S("b")), gen.F("ends-with", a, gen.S("b"))} {
				f5 = append(f5, hostCase{relPath(withPred(h, call)), relPath(h)})
			}
		}
	} // string-length() without argument is deliberately rejected by Compile and outside the property
	n := 3
	if tier == "thorough" {
		n = 4
	}
	vals := []string{"ab", "", " a  b ", "B"}
	docs := func() []*doc.Tree { return uniV(n, vals) }
	return []*explore.Space{
		exprSpace("F1", "every string function x every argument tuple over the 12-string alphabet", f1, one, ev),
		exprSpace("F2", "substring(s,i) and substring(s,i,l) over the 12 x 21 x 22 cube (starts and lengths incl. negative, fractional, 2^32, 2^63, 10^19, 10^29)", f2, one, ev),
		exprSpace("F3", "chains of unary string wrappers", f3, one, ev),
		exprSpace("F4", "flat node-set arguments x value universe", f4, docs, ev),
		exprSpace("F5", "string functions over arguments that end in a positional predicate, evaluated for several candidates of a predicate", hostExprs(f5), docs,
			&evalCfg{Prop: "C09", Ops: []string{"select"}, Mode: "set", Base: func(i int) gen.Expr { return f5[i].base }}),
		f6Space(),
	}
}

// afterAbort evaluates `aborting` (an expression that raises the package's
// type error after part of a string result was built) and then `plain`, in one
// process, and returns plain's observed value and the reference value.
func afterAbort(aborting, plain string) (got, want string, ok bool, err error) {
	ea, e1 := xpath.Compile(aborting)
	ep, e2 := xpath.Compile(plain)
	ast, e3 := ref.Parse(plain)
	if e1 != nil || e2 != nil || e3 != nil {
		return "", "", false, fmt.Errorf("F6 expressions must compile: %v %v %v", e1, e2, e3)
	}
	settleGlobals()
	o := eng.Evaluate(ea, emptyDoc, 0, false)
	if o.Kind != "panic-error" {
		return o.String(), "a deliberate type error from the first expression", false, nil
	}
	g := eng.Evaluate(ep, emptyDoc, 0, false)
	w := ref.Eval(&ref.Env{T: emptyDoc}, 0, ast)
	return g.String(), w.String(), g.String() == w.String(), nil
}

func f6Space() *explore.Space {
	aborting := []string{"concat('LEFT-OVER', substring('abc', 'x'))", "concat('L', 'M', string(sum('y')))", "normalize-space(concat(' p  q ', string(sum('y'))))", "string-join(/nosuch, substring('abc', 'x'))",
		"concat(normalize-space(' u '), string(sum('y')))"}
	plain := []string{"concat('a', 'b')", "concat('', '')", "normalize-space('  x   y ')", "normalize-space('')", "string-join(/nosuch, ',')", "concat(normalize-space(' a '), '-', 'b')", "translate('abc', 'a', 'x')",
		"substring-before('a-b', '-')", "lower-case('AB')", "string(concat('1', '2'))", "string-length(concat('a', 'b'))", "contains(concat('a', 'b'), 'ab')"}
	return &explore.Space{
		Name: "F6", Desc: "a string function evaluated right after an evaluation that aborted half-way through building a string (5 aborting x 12 plain expressions, both orders of compilation)",
		Size:  len(aborting) * len(plain),
		Label: func(i int) string { return aborting[i/len(plain)] + " ; " + plain[i%len(plain)] },
		Run: func(i int, w *explore.Worker) {
			a, p := aborting[i/len(plain)], plain[i%len(plain)]
			for k := 0; k < 2; k++ { // twice: the second round meets whatever the first one left behind
				w.Eval()
				got, want, ok, err := afterAbort(a, p)
				if err != nil {
					w.InternalError(err.Error())
					return
				}
				w.NonTrivialCase(a + p)
				w.RefOutcome("value")
				if ok {
					w.EngOutcome("agree")
					continue
				}
				w.EngOutcome("differ")
				w.Violation(&report.Case{Kind: "c09after", Expr: p, Op: "evaluate, right after " + a + " aborted", Expected: want, Got: got, Class: "value-after-abort",
					Extra: map[string]interface{}{"aborting": a}, Sig: "C09|F6|" + p + "|after|" + a, Weight: len(a) + len(p)})
			}
		},
	}
}

func init() {
	report.RegisterReplayer("c09after", func(c *report.Case) (string, bool, error) {
		got, _, ok, err := afterAbort(fmt.Sprint(c.Extra["aborting"]), c.Expr)
		return got, ok, err
	})
	explore.Register(&explore.Property{
		ID: "C09", Level: "exploration",
		Rule: "every string function of the property x every argument tuple over a 12-string ASCII alphabet (empty, blanks, tabs/newlines, mixed case), substring over the complete 12x21x22 cube of (string, start, length) incl. negative/fractional/huge numbers, all chains of <= 4 (thorough: 5) unary string wrappers, and flat node-set arguments on every document of a value universe from every context node, compared with the reference string/number/boolean; F6: the value of a string function right after an evaluation that aborted half-way through building a string; distinct = distinct expressions",
		Assumptions:    []string{"hand-written reference string functions (XPath 1.0 §4.2, F&O for the three 2.0 functions)", "ASCII only", "bounded alphabets"},
		Budget:         budget(90*time.Second, 10*time.Minute),
		MinRefOutcomes: 2,
		Spaces:         c09Spaces,
	})
}

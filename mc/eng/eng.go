// Package eng drives the real antchfx/xpath implementation and turns what it
// does into plain, comparable observations.
package eng

import (
	"fmt"
	"math"
	"runtime"
	"strings"

	"github.com/antchfx/xpath"

	"verif/mc/doc"
	"verif/mc/ref"
)

// Outcome is one observation of the engine.
type Outcome struct {
	Kind  string // nodes | bool | num | str | panic-runtime | panic-error | panic-other | hang | badtype | nil
	Nodes []int
	B     bool
	N     float64
	S     string
	Msg   string
}

func (o Outcome) String() string {
	switch o.Kind {
	case "nodes":
		return fmt.Sprintf("nodes:%v", o.Nodes)
	case "bool":
		return fmt.Sprintf("bool:%v", o.B)
	case "num":
		return "num:" + ref.NumToString(o.N)
	case "str":
		return fmt.Sprintf("str:%q", o.S)
	}
	return o.Kind + ":" + o.Msg
}

// IsPanic reports whether the engine aborted.
func (o Outcome) IsPanic() bool { return strings.HasPrefix(o.Kind, "panic") }

// DefaultBudget is the navigator-call budget of one evaluation on a small tree.
const DefaultBudget = 2_000_000

func classify(r interface{}) Outcome {
	switch v := r.(type) {
	case doc.BudgetExceeded:
		return Outcome{Kind: "hang", Msg: v.Error()}
	case runtime.Error:
		return Outcome{Kind: "panic-runtime", Msg: v.Error()}
	case error:
		return Outcome{Kind: "panic-error", Msg: fmt.Sprintf("%T: %s", v, v.Error())}
	case string:
		return Outcome{Kind: "panic-error", Msg: "string: " + v}
	}
	return Outcome{Kind: "panic-other", Msg: fmt.Sprintf("%T: %v", r, r)}
}

// Compile compiles with the chosen mode. ns==nil && !withNS => Compile.
func Compile(expr string, withNS bool, ns map[string]string) (e *xpath.Expr, err error, pan *Outcome) {
	defer func() {
		if r := recover(); r != nil {
			o := classify(r)
			pan = &o
		}
	}()
	if withNS {
		e, err = xpath.CompileWithNS(expr, ns)
	} else {
		e, err = xpath.Compile(expr)
	}
	return
}

// Drain iterates an iterator to exhaustion, returning arena indices.
func Drain(it *xpath.NodeIterator, max int) []int {
	var out []int
	for it.MoveNext() {
		out = append(out, doc.At(it.Current()))
		if max > 0 && len(out) > max {
			panic(doc.BudgetExceeded{})
		}
	}
	if out == nil {
		out = []int{}
	}
	return out
}

// Select runs e.Select from ctx and drains it.
func Select(e *xpath.Expr, t *doc.Tree, ctx int, navNS bool) (o Outcome) {
	b := &doc.Budget{Limit: DefaultBudget}
	defer func() {
		if r := recover(); r != nil {
			o = classify(r)
		}
	}()
	it := e.Select(doc.New(t, ctx, navNS, b))
	return Outcome{Kind: "nodes", Nodes: Drain(it, 100*t.Len()+100)}
}

// Evaluate runs e.Evaluate from ctx; an iterator result is drained.
func Evaluate(e *xpath.Expr, t *doc.Tree, ctx int, navNS bool) (o Outcome) {
	b := &doc.Budget{Limit: DefaultBudget}
	defer func() {
		if r := recover(); r != nil {
			o = classify(r)
		}
	}()
	v := e.Evaluate(doc.New(t, ctx, navNS, b))
	return FromValue(v, t)
}

// FromValue converts an Evaluate result.
func FromValue(v interface{}, t *doc.Tree) Outcome {
	switch x := v.(type) {
	case nil:
		return Outcome{Kind: "nil"}
	case bool:
		return Outcome{Kind: "bool", B: x}
	case float64:
		return Outcome{Kind: "num", N: x}
	case string:
		return Outcome{Kind: "str", S: x}
	case *xpath.NodeIterator:
		return Outcome{Kind: "nodes", Nodes: Drain(x, 100*t.Len()+100)}
	}
	return Outcome{Kind: "badtype", Msg: fmt.Sprintf("%T", v)}
}

// SameNum is bit-level agreement up to NaN payload.
func SameNum(a, b float64) bool {
	if math.IsNaN(a) || math.IsNaN(b) {
		return math.IsNaN(a) && math.IsNaN(b)
	}
	return a == b
}

// AsSet returns the sorted distinct members.
func AsSet(ns []int) []int {
	seen := map[int]bool{}
	var out []int
	for _, n := range ns {
		if !seen[n] {
			seen[n] = true
			out = append(out, n)
		}
	}
	for i := 1; i < len(out); i++ {
		for j := i; j > 0 && out[j-1] > out[j]; j-- {
			out[j-1], out[j] = out[j], out[j-1]
		}
	}
	if out == nil {
		out = []int{}
	}
	return out
}

func EqInts(a, b []int) bool {
	if len(a) != len(b) {
		return false
	}
	for i := range a {
		if a[i] != b[i] {
			return false
		}
	}
	return true
}

// Matches compares an engine outcome with a reference value. setOnly makes
// node results compare as sets of distinct nodes (C01); otherwise sequences
// must be in document order without duplicates.
func Matches(o Outcome, v ref.Value, setOnly bool) bool {
	if setOnly {
		return MatchesMode(o, v, "set")
	}
	return MatchesMode(o, v, "seq")
}

// SortedBag returns the nodes sorted, duplicates kept.
func SortedBag(ns []int) []int {
	out := append([]int{}, ns...)
	for i := 1; i < len(out); i++ {
		for j := i; j > 0 && out[j-1] > out[j]; j-- {
			out[j-1], out[j] = out[j], out[j-1]
		}
	}
	return out
}

// MatchesMode: mode "set" ignores order and multiplicity, "bag" ignores order
// only (every node exactly once), "seq" demands document order, no duplicates.
func MatchesMode(o Outcome, v ref.Value, mode string) bool {
	switch v.T {
	case ref.TNodeSet:
		if o.Kind != "nodes" {
			return false
		}
		switch mode {
		case "set":
			return EqInts(AsSet(o.Nodes), v.NS)
		case "bag":
			return EqInts(SortedBag(o.Nodes), v.NS)
		}
		return EqInts(o.Nodes, v.NS)
	case ref.TBool:
		return o.Kind == "bool" && o.B == v.B
	case ref.TNum:
		return o.Kind == "num" && SameNum(o.N, v.N)
	case ref.TStr:
		return o.Kind == "str" && o.S == v.S
	}
	return true // undefined: nothing to compare
}

// DiffClass names how a node result deviates from the expected set.
func DiffClass(got, want []int) string {
	w := map[int]bool{}
	for _, x := range want {
		w[x] = true
	}
	g := map[int]int{}
	for _, x := range got {
		g[x]++
	}
	missing, extra, dup := false, false, false
	for _, x := range want {
		if g[x] == 0 {
			missing = true
		}
	}
	for x, c := range g {
		if !w[x] {
			extra = true
		}
		if c > 1 {
			dup = true
		}
	}
	var parts []string
	if missing {
		parts = append(parts, "missing")
	}
	if extra {
		parts = append(parts, "extra")
	}
	if dup {
		parts = append(parts, "duplicate")
	}
	if len(parts) == 0 {
		if !EqInts(got, want) {
			return "order"
		}
		return "same"
	}
	return strings.Join(parts, "+")
}

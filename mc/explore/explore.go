// Package explore is the exhaustive enumeration engine: named finite spaces,
// sharded over worker subprocesses, merged into evidence and verdicts.
package explore

import (
	"context"
	"encoding/json"
	"fmt"
	"hash/fnv"
	"os"
	"os/exec"
	"path/filepath"
	"sort"
	"strconv"
	"strings"
	"sync"
	"syscall"
	"time"

	"verif/mc/report"
)

// Space is a finite set of items; exploring item i means exploring every
// case below it (all documents, contexts, histories, schedules ...).
type Space struct {
	Name  string
	Desc  string
	Size  int
	Run   func(i int, w *Worker)
	Label func(i int) string
}

// Property binds an id to its spaces and its evidence vocabulary.
type Property struct {
	ID          string
	Level       string // exploration | model_checking
	Rule        string
	Assumptions []string
	Spaces      func(tier string) []*Space
	Budget      func(tier string) time.Duration
	// Post runs in the coordinator after the workers (e.g. race pass); it may
	// add counters and violations.
	Post func(tier string, m *Merged)
	// WorkerProcs sets GOMAXPROCS of the worker processes (default 2).
	WorkerProcs int
	// MinRefOutcomes: vacuity threshold on reference-side outcome classes.
	MinRefOutcomes int
	// ItemTimeout: the coordinator's watchdog limit for ONE item of a space
	// (default 120 s; a typical item takes microseconds to a few seconds). A
	// worker that sits on the same item for longer is killed and the item is
	// re-run in isolation; if it hangs again it is a "hang" violation.
	ItemTimeout func(tier string) time.Duration
}

func (p *Property) itemTimeout(tier string) time.Duration {
	if v := os.Getenv("VERIF_ITEM_TIMEOUT_S"); v != "" {
		if s, err := strconv.Atoi(v); err == nil && s > 0 {
			return time.Duration(s) * time.Second
		}
	}
	if p.ItemTimeout != nil {
		return p.ItemTimeout(tier)
	}
	if tier == "thorough" {
		return 900 * time.Second
	}
	return 120 * time.Second
}

var registry = map[string]*Property{}

func Register(p *Property) { registry[p.ID] = p }
func Lookup(id string) *Property { return registry[id] }
func IDs() []string {
	var out []string
	for k := range registry {
		out = append(out, k)
	}
	sort.Strings(out)
	return out
}

// Worker accumulates what one shard saw.
type Worker struct {
	Prop        string                  `json:"prop"`
	Evals       int64                   `json:"evals"`
	NonTrivial  int64                   `json:"nontrivial_evals"`
	Distinct    int64                   `json:"distinct_nontrivial"`
	RefOutcomes map[string]int64        `json:"ref_outcomes"`
	EngOutcomes map[string]int64        `json:"eng_outcomes"`
	Counters    map[string]int64        `json:"counters"`
	Viol        map[string]*report.Case `json:"violations"`
	Samples     map[string][]string     `json:"samples"`
	Done        map[string]int          `json:"done"`      // items finished per space
	Assigned    map[string]int          `json:"assigned"`  // items assigned per space
	Exhausted   bool                    `json:"exhausted"` // finished everything assigned
	Internal    []string                `json:"internal"`  // harness-side errors (exit 2)

	distinct map[uint64]struct{}
	deadline time.Time
	curSpace string
	curIdx   int
	tier     string
}

func newWorker(prop string, deadline time.Time) *Worker {
	return &Worker{Prop: prop, RefOutcomes: map[string]int64{}, EngOutcomes: map[string]int64{},
		Counters: map[string]int64{}, Viol: map[string]*report.Case{}, Samples: map[string][]string{},
		Done: map[string]int{}, Assigned: map[string]int{}, distinct: map[uint64]struct{}{}, deadline: deadline}
}

// Eval counts one explored case.
func (w *Worker) Eval() { w.Evals++ }

// NonTrivialCase records that a case was non-trivial by the property's rule;
// key identifies the *distinct* thing (usually the expression).
func (w *Worker) NonTrivialCase(key string) {
	w.NonTrivial++
	h := fnv.New64a()
	h.Write([]byte(w.curSpace))
	h.Write([]byte{0})
	h.Write([]byte(key))
	k := h.Sum64()
	if _, ok := w.distinct[k]; !ok {
		w.distinct[k] = struct{}{}
		w.Distinct++
	}
}

func (w *Worker) RefOutcome(class string) { w.RefOutcomes[class]++ }
func (w *Worker) EngOutcome(class string) { w.EngOutcomes[class]++ }
func (w *Worker) Count(name string, n int64) { w.Counters[name] += n }

// Sample keeps the first few cases of each space written out.
func (w *Worker) Sample(s string) {
	if len(w.Samples[w.curSpace]) < 3 {
		w.Samples[w.curSpace] = append(w.Samples[w.curSpace], s)
	}
}

// Violation records a failing case; per signature the simplest witness and a
// count are kept.
func (w *Worker) Violation(c *report.Case) {
	c.Property = w.Prop
	if c.Space == "" {
		c.Space = w.curSpace
	}
	if c.Kind == "item" {
		// replayable by re-running the item it came from
		if c.Extra == nil {
			c.Extra = map[string]interface{}{}
		}
		if _, ok := c.Extra["index"]; !ok {
			c.Extra["tier"], c.Extra["space"], c.Extra["index"] = w.tier, w.curSpace, w.curIdx
		}
	}
	if old, ok := w.Viol[c.Sig]; ok {
		old.Count++
		if c.Weight < old.Weight {
			c.Count = old.Count
			w.Viol[c.Sig] = c
		}
		return
	}
	c.Count = 1
	w.Viol[c.Sig] = c
}

func (w *Worker) InternalError(s string) {
	if len(w.Internal) < 20 {
		w.Internal = append(w.Internal, s)
	}
}

// Expired reports whether the tier budget is used up.
func (w *Worker) Expired() bool { return !w.deadline.IsZero() && time.Now().After(w.deadline) }

// RunWorker explores shard/nshards of every space and writes the result.
func RunWorker(p *Property, tier string, shard, nshards int, deadline time.Time, out string) error {
	w := newWorker(p.ID, deadline)
	w.tier = tier
	cur := out + ".cur"
	curF, _ := os.OpenFile(cur, os.O_CREATE|os.O_WRONLY, 0o644)
	if curF != nil {
		defer curF.Close()
	}
	spaces := p.Spaces(tier)
	w.Exhausted = true
	if f := os.Getenv("VERIF_SPACES"); f != "" { // debugging aid: restrict to spaces with these name prefixes
		var keep []*Space
		for _, sp := range spaces {
			for _, pre := range strings.Split(f, ",") {
				if strings.HasPrefix(sp.Name, pre) {
					keep = append(keep, sp)
					break
				}
			}
		}
		spaces = keep
	}
	for _, sp := range spaces {
		w.curSpace = sp.Name
		for i := shard; i < sp.Size; i += nshards {
			w.Assigned[sp.Name]++
		}
	}
	for _, sp := range spaces {
		w.curSpace = sp.Name
		// rotate start by seed? order is fixed: simplest first.
		for i := shard; i < sp.Size; i += nshards {
			if w.Expired() {
				w.Exhausted = false
				break
			}
			// progress record for crash attribution: one pwrite into an open file
			// (creating/truncating a file per item costs more than most items)
			if curF != nil {
				rec := fmt.Sprintf("%-120s", sp.Name+" "+strconv.Itoa(i))
				curF.WriteAt([]byte(rec), 0)
			}
			t0 := time.Now()
			w.curIdx = i
			sp.Run(i, w)
			if d := time.Since(t0); os.Getenv("VERIF_TIMING") != "" && d > 2*time.Second {
				lbl := ""
				if sp.Label != nil {
					lbl = sp.Label(i)
				}
				fmt.Fprintf(os.Stderr, "TIMING %s #%d %.1fs %s\n", sp.Name, i, d.Seconds(), lbl)
			}
			w.Done[sp.Name]++
		}
	}
	os.Remove(cur)
	b, err := json.Marshal(w)
	if err != nil {
		return err
	}
	return os.WriteFile(out, b, 0o644)
}

// RunItem explores one item (crash reproduction / replay of an item).
func RunItem(p *Property, tier, space string, idx int) (*Worker, error) {
	w := newWorker(p.ID, time.Time{})
	w.tier = tier
	for _, sp := range p.Spaces(tier) {
		if sp.Name == space {
			w.curSpace = sp.Name
			w.curIdx = idx
			sp.Run(idx, w)
			return w, nil
		}
	}
	return nil, fmt.Errorf("no space %q", space)
}

// Merged is the coordinator's view.
type Merged struct {
	Evals, NonTrivial, Distinct int64
	RefOutcomes, EngOutcomes    map[string]int64
	Counters                    map[string]int64
	Viol                        map[string]*report.Case
	Samples                     map[string][]string
	Done, Assigned              map[string]int
	Exhaustive                  bool
	Internal                    []string
	SpaceSizes                  map[string]int
	SpaceOrder                  []string
	SpaceDesc                   map[string]string
	Extra                       map[string]interface{}
}

func (m *Merged) add(w *Worker) {
	m.Evals += w.Evals
	m.NonTrivial += w.NonTrivial
	m.Distinct += w.Distinct
	for k, v := range w.RefOutcomes {
		m.RefOutcomes[k] += v
	}
	for k, v := range w.EngOutcomes {
		m.EngOutcomes[k] += v
	}
	for k, v := range w.Counters {
		m.Counters[k] += v
	}
	for k, c := range w.Viol {
		if old, ok := m.Viol[k]; ok {
			if c.Weight < old.Weight {
				c.Count += old.Count
				m.Viol[k] = c
			} else {
				old.Count += c.Count
			}
		} else {
			m.Viol[k] = c
		}
	}
	for k, v := range w.Samples {
		if len(m.Samples[k]) < 3 {
			m.Samples[k] = append(m.Samples[k], v...)
			if len(m.Samples[k]) > 3 {
				m.Samples[k] = m.Samples[k][:3]
			}
		}
	}
	for k, v := range w.Done {
		m.Done[k] += v
	}
	for k, v := range w.Assigned {
		m.Assigned[k] += v
	}
	if !w.Exhausted {
		m.Exhaustive = false
	}
	m.Internal = append(m.Internal, w.Internal...)
}

func root() string {
	if r := os.Getenv("VERIF_ROOT"); r != "" {
		return r
	}
	return "/verif"
}

// Root is the /verif directory.
func Root() string { return root() }

// Check is the coordinator: it runs the property at the given tier and returns
// the process exit code (0 held / 1 violation / 2 harness broken).
func Check(id, tier string) int {
	p := Lookup(id)
	if p == nil {
		fmt.Fprintf(os.Stderr, "unknown property %s\n", id)
		return 2
	}
	start := time.Now()
	seed, _ := strconv.Atoi(os.Getenv("VERIF_SEED"))
	nsh := 16
	if v, err := strconv.Atoi(os.Getenv("VERIF_SHARDS")); err == nil && v > 0 {
		nsh = v
	}
	budget := p.Budget(tier)
	if v := os.Getenv("VERIF_BUDGET_S"); v != "" {
		if s, err := strconv.Atoi(v); err == nil {
			budget = time.Duration(s) * time.Second
		}
	}
	deadline := start.Add(budget)

	findings, err := report.LoadFindings(filepath.Join(root(), "known_findings.txt"))
	if err != nil {
		fmt.Fprintf(os.Stderr, "known_findings: %v\n", err)
		return 2
	}

	tmp, err := os.MkdirTemp("", "mc-"+id+"-")
	if err != nil {
		fmt.Fprintln(os.Stderr, err)
		return 2
	}
	defer os.RemoveAll(tmp)

	self, _ := os.Executable()
	type proc struct {
		cmd *exec.Cmd
		out string
		err error
	}
	procs := make([]*proc, nsh)
	for s := 0; s < nsh; s++ {
		out := filepath.Join(tmp, fmt.Sprintf("w%d.json", s))
		// the seed only rotates which process gets which shard
		sh := (s + seed) % nsh
		cmd := exec.Command(self, "worker", id, tier, strconv.Itoa(sh), strconv.Itoa(nsh),
			strconv.FormatInt(deadline.UnixNano(), 10), out)
		cmd.Stderr = os.Stderr
		cmd.Stdout = os.Stderr
		nprocs := "2"
		if p.WorkerProcs > 0 {
			nprocs = strconv.Itoa(p.WorkerProcs)
		}
		cmd.Env = append(os.Environ(), "GOMAXPROCS="+nprocs)
		cmd.SysProcAttr = &syscall.SysProcAttr{Pdeathsig: syscall.SIGKILL} // no orphan (possibly hung) workers if the coordinator is killed
		procs[s] = &proc{cmd: cmd, out: out}
		if err := cmd.Start(); err != nil {
			fmt.Fprintln(os.Stderr, err)
			return 2
		}
	}
	m := &Merged{RefOutcomes: map[string]int64{}, EngOutcomes: map[string]int64{}, Counters: map[string]int64{},
		Viol: map[string]*report.Case{}, Samples: map[string][]string{}, Done: map[string]int{}, Assigned: map[string]int{},
		Exhaustive: true, SpaceSizes: map[string]int{}, SpaceDesc: map[string]string{}, Extra: map[string]interface{}{}}
	for _, sp := range p.Spaces(tier) {
		m.SpaceSizes[sp.Name] = sp.Size
		m.SpaceOrder = append(m.SpaceOrder, sp.Name)
		m.SpaceDesc[sp.Name] = sp.Desc
	}
	// watchdog: a worker that stays on one item longer than the item timeout is
	// killed; the item is then re-run in isolation (crashCase) and reported as a
	// hang if it does not finish there either
	itemTO := p.itemTimeout(tier)
	type waitRes struct {
		i   int
		err error
	}
	waitCh := make(chan waitRes, nsh)
	for i, pr := range procs {
		go func(i int, pr *proc) { waitCh <- waitRes{i, pr.cmd.Wait()} }(i, pr)
	}
	lastCur := make([]string, nsh)
	lastChange := make([]time.Time, nsh)
	hung := make([]bool, nsh)
	finished := make([]bool, nsh)
	for i := range lastChange {
		lastChange[i] = time.Now()
	}
	tick := time.NewTicker(time.Second)
	for left := nsh; left > 0; {
		select {
		case r := <-waitCh:
			procs[r.i].err = r.err
			finished[r.i] = true
			left--
		case <-tick.C:
			for i, pr := range procs {
				if finished[i] || hung[i] {
					continue
				}
				b, _ := os.ReadFile(pr.out + ".cur")
				if c := strings.TrimSpace(string(b)); c != lastCur[i] {
					lastCur[i], lastChange[i] = c, time.Now()
				} else if c != "" && time.Since(lastChange[i]) > itemTO {
					hung[i] = true
					pr.cmd.Process.Kill()
				}
			}
		}
	}
	tick.Stop()
	// hung items are re-run alone concurrently, one per space (the signature of
	// a hang is per space, so further hung workers of the same space add nothing)
	hangCases := map[string]*report.Case{}
	hangTried := map[string]bool{}
	{
		var mu sync.Mutex
		var wg sync.WaitGroup
		for i, pr := range procs {
			if !hung[i] {
				continue
			}
			curB, _ := os.ReadFile(pr.out + ".cur")
			cur := strings.Fields(string(curB))
			if len(cur) != 2 || hangTried[cur[0]] {
				continue
			}
			hangTried[cur[0]] = true
			idx, _ := strconv.Atoi(cur[1])
			wg.Add(1)
			go func(space string, idx int) {
				defer wg.Done()
				c := crashCase(p, tier, space, idx, self, true, itemTO)
				mu.Lock()
				hangCases[space] = c
				mu.Unlock()
			}(cur[0], idx)
		}
		wg.Wait()
	}
	for i, pr := range procs {
		if pr.err != nil {
			// crash or hang of a shard: attribute it to the item it was running
			curB, _ := os.ReadFile(pr.out + ".cur")
			cur := strings.Fields(string(curB))
			if len(cur) == 2 {
				idx, _ := strconv.Atoi(cur[1])
				var c *report.Case
				if hc, ok := hangCases[cur[0]]; hung[i] && ok && hc != nil {
					c = hc
					if _, dup := m.Viol[c.Sig]; dup {
						c.Count++
					}
				} else {
					c = crashCase(p, tier, cur[0], idx, self, hung[i], itemTO)
				}
				if c != nil {
					c.Property = id
					m.Viol[c.Sig] = c
				} else if hung[i] {
					// the watchdog fired on an item that finishes when run alone (overloaded
					// machine): nothing is concluded from it; the whole shard is run again
					// without a per-item limit so that no coverage is lost
					fmt.Fprintf(os.Stderr, "note: watchdog fired at %s #%s (limit %v) but the item finishes alone; re-running the shard\n", cur[0], cur[1], itemTO)
					ctx, cancel := context.WithTimeout(context.Background(), time.Until(deadline)+10*time.Minute)
					re := exec.CommandContext(ctx, self, pr.cmd.Args[1:]...)
					re.Env, re.Stderr, re.Stdout = pr.cmd.Env, os.Stderr, os.Stderr
					err := re.Run()
					cancel()
					if err != nil {
						m.Internal = append(m.Internal, fmt.Sprintf("shard re-run after a watchdog hit failed: %v", err))
						m.Exhaustive = false
						continue
					}
					if b, err := os.ReadFile(pr.out); err == nil {
						var w Worker
						if json.Unmarshal(b, &w) == nil {
							m.add(&w)
							continue
						}
					}
					m.Internal = append(m.Internal, "shard re-run after a watchdog hit left no result")
				} else {
					m.Internal = append(m.Internal, fmt.Sprintf("worker died (%v) at %s #%s but the item does not crash when re-run", pr.err, cur[0], cur[1]))
				}
			} else {
				m.Internal = append(m.Internal, fmt.Sprintf("worker died: %v", pr.err))
			}
			m.Exhaustive = false
			continue
		}
		b, err := os.ReadFile(pr.out)
		if err != nil {
			m.Internal = append(m.Internal, err.Error())
			continue
		}
		var w Worker
		if err := json.Unmarshal(b, &w); err != nil {
			m.Internal = append(m.Internal, err.Error())
			continue
		}
		m.add(&w)
	}
	if p.Post != nil {
		p.Post(tier, m)
	}

	// ---- verdicts -------------------------------------------------------
	exit := 0
	var cases []*report.Case
	for _, c := range m.Viol {
		cases = append(cases, c)
	}
	report.SortCases(cases)
	knownHit := map[string]int64{}
	newViol := 0
	replayDir := filepath.Join(root(), "replays", id)
	for _, c := range cases {
		if f := report.Match(findings, id, c.Sig); f != nil {
			knownHit[f.ID] += c.Count
			continue
		}
		// confirm before believing: re-run 3x; all three must fail again. If some
		// replay passes, the code under test (not the harness: replays are
		// deterministic functions of the case) behaves differently from run to run
		// — e.g. it iterates over a Go map —; the case is then replayed up to 12
		// times and believed when the failure shows at least twice more.
		confirmed := true
		if _, has := report.ReplayerFor(c.Kind); has && c.Class != "hang" && c.Class != "crash" { // (those were re-run alone already)
			fails, runs, lastObs := 0, 0, ""
			for k := 0; k < 12; k++ {
				obs, ok, err := report.Replay(c)
				if err != nil {
					m.Internal = append(m.Internal, "replay error: "+err.Error()+" sig="+c.Sig)
					confirmed = false
					break
				}
				runs++
				if ok {
					lastObs = obs
				} else {
					fails++
				}
				if runs == 3 && fails == 3 {
					break
				}
			}
			switch {
			case !confirmed:
			case fails == runs:
			case fails >= 2:
				c.Note = strings.TrimSpace(c.Note + fmt.Sprintf(" non-deterministic under replay: failed %d of %d identical replays", fails, runs))
			default:
				m.Internal = append(m.Internal, fmt.Sprintf("FLAKY-INTERNAL: violation did not reproduce on replay (%d of %d): sig=%s expr=%s got=%s extra=%v replay-observed=%s", fails, runs, c.Sig, c.Expr, c.Got, c.Extra, lastObs))
				confirmed = false
			}
		}
		if !confirmed {
			continue
		}
		newViol++
		path, err := c.Save(replayDir)
		if err != nil {
			m.Internal = append(m.Internal, err.Error())
		}
		if newViol <= 25 {
			fmt.Printf("VIOLATION property=%s replay=%s\n", id, path)
			fmt.Printf("  sig=%s\n  expr=%s tree=%s ctx=%s op=%s\n  expected=%s\n  got=%s  (x%d)\n", c.Sig, c.Expr, c.TreeS, c.CtxS, c.Op, c.Expected, c.Got, c.Count)
		}
		exit = 1
	}
	if newViol > 25 {
		fmt.Printf("... %d further violation signatures (replay files written under %s)\n", newViol-25, replayDir)
	}
	// known findings: print a line for each open finding of this property that
	// was hit by this run
	for _, f := range findings {
		if f.Open && f.Property == id {
			n := knownHit[f.ID]
			witnessFails := false
			if f.Witness != "" {
				if wc, err := report.LoadCase(filepath.Join(root(), f.Witness)); err != nil {
					m.Internal = append(m.Internal, "known finding "+f.ID+": "+err.Error())
				} else if _, ok, err := report.Replay(wc); err != nil {
					m.Internal = append(m.Internal, "known finding "+f.ID+": "+err.Error())
				} else {
					witnessFails = !ok
				}
			}
			if n > 0 || witnessFails {
				fmt.Printf("KNOWN-FINDING: property=%s id=%s %s (witness still fails: %v; cases in this run: %d)\n", id, f.ID, f.What, witnessFails, n)
			}
		}
	}

	// vacuity: reference-side only
	if p.MinRefOutcomes > 0 && len(m.RefOutcomes) < p.MinRefOutcomes && m.Exhaustive {
		m.Internal = append(m.Internal, fmt.Sprintf("vacuous: only %d reference outcome classes", len(m.RefOutcomes)))
	}
	if m.Evals == 0 {
		m.Internal = append(m.Internal, "vacuous: nothing evaluated")
	}

	// ---- evidence -------------------------------------------------------
	cov := map[string]interface{}{
		"evaluations":            m.Evals,
		"distinct_nontrivial":    m.Distinct,
		"nontrivial_evaluations": m.NonTrivial,
		"rule":                   p.Rule,
		"exhaustive":             m.Exhaustive,
		"distinct_outcomes":      len(m.EngOutcomes),
		"engine_outcome_classes": m.EngOutcomes,
		"reference_outcome_classes": m.RefOutcomes,
		"known_finding_cases":    knownHit,
		"new_violation_signatures": newViol,
		"workers":                nsh,
		"budget_s":               budget.Seconds(),
	}
	var spaces []map[string]interface{}
	var samples []interface{}
	for _, name := range m.SpaceOrder {
		spaces = append(spaces, map[string]interface{}{
			"space": name, "desc": m.SpaceDesc[name], "items": m.SpaceSizes[name],
			"items_completed": m.Done[name], "complete": m.Done[name] == m.SpaceSizes[name],
		})
		for _, s := range m.Samples[name] {
			samples = append(samples, map[string]string{"space": name, "case": s})
		}
	}
	if len(samples) == 0 {
		samples = append(samples, "no case explored")
	}
	cov["spaces"] = spaces
	cov["samples"] = samples
	for k, v := range m.Counters {
		cov[k] = v
	}
	for k, v := range m.Extra {
		cov[k] = v
	}
	if p.Level == "model_checking" {
		for _, k := range []string{"states", "transitions", "traces_validated_against_impl"} {
			if _, ok := cov[k]; !ok {
				cov[k] = int64(0)
			}
		}
	}
	ev := &report.Evidence{PropertyID: id, Tier: tier, Seed: seed, Level: p.Level, Coverage: cov,
		Assumptions: p.Assumptions, WallS: time.Since(start).Seconds(), Violations: newViol}
	if err := ev.Write(filepath.Join(root(), "evidence", id+".json")); err != nil {
		fmt.Fprintln(os.Stderr, err)
		return 2
	}
	fmt.Printf("%s %s: evaluations=%d distinct_nontrivial=%d exhaustive=%v new_violations=%d known=%d wall=%.1fs\n",
		id, tier, m.Evals, m.Distinct, m.Exhaustive, newViol, len(knownHit), time.Since(start).Seconds())
	if len(m.Internal) > 0 {
		for i, s := range m.Internal {
			if i < 20 {
				fmt.Fprintln(os.Stderr, "INTERNAL:", s)
			}
		}
		if exit == 0 {
			return 2
		}
	}
	return exit
}

// runItemProc runs one item in a fresh subprocess under a time limit.
// It returns (output, died, hung).
func runItemProc(self, id, tier, space string, idx int, limit time.Duration) (string, bool, bool) {
	ctx, cancel := context.WithTimeout(context.Background(), limit)
	defer cancel()
	cmd := exec.CommandContext(ctx, self, "item", id, tier, space, strconv.Itoa(idx))
	cmd.WaitDelay = 2 * time.Second
	b, err := cmd.CombinedOutput()
	if ctx.Err() != nil {
		return string(b), false, true
	}
	return string(b), err != nil, false
}

// crashCase re-runs one item in a fresh subprocess (three times for a crash,
// twice for a hang); if it dies / hangs every time that is a finding about the
// item.
func crashCase(p *Property, tier, space string, idx int, self string, wasHung bool, limit time.Duration) *report.Case {
	var lastOut string
	n := 3
	if wasHung {
		n = 2
	}
	for k := 0; k < n; k++ {
		out, died, hung := runItemProc(self, p.ID, tier, space, idx, limit)
		if !died && !hung {
			return nil
		}
		wasHung = hung
		lastOut = out
	}
	label := ""
	for _, sp := range p.Spaces(tier) {
		if sp.Name == space && sp.Label != nil {
			label = sp.Label(idx)
		}
	}
	if len(lastOut) > 4000 {
		lastOut = lastOut[:4000]
	}
	c := &report.Case{Kind: "item", Space: space, Expr: label,
		Extra:    map[string]interface{}{"tier": tier, "space": space, "index": idx, "output": lastOut, "limit_s": limit.Seconds()},
		Expected: "item completes", Count: 1}
	if wasHung {
		c.Got, c.Class = fmt.Sprintf("no result within %v (re-run alone, twice)", limit), "hang"
		c.Sig = p.ID + "|" + space + "|hang"
		return c
	}
	first := lastOut
	if i := strings.Index(first, "\n"); i > 0 {
		first = first[:i]
	}
	c.Got, c.Class = "process died: "+first, "crash"
	c.Sig = p.ID + "|" + space + "|crash|" + first
	return c
}

func init() {
	// "item" cases are replayed by re-running the item they came from in a
	// fresh process: the property holds on the case iff the item completes in
	// time without reporting the recorded signature
	report.RegisterReplayer("item", func(c *report.Case) (string, bool, error) {
		tier, _ := c.Extra["tier"].(string)
		space, _ := c.Extra["space"].(string)
		if tier == "" || space == "" || c.Extra["index"] == nil {
			return "", false, fmt.Errorf("item case without tier/space/index")
		}
		var idx int
		switch v := c.Extra["index"].(type) {
		case float64:
			idx = int(v)
		case int:
			idx = v
		default:
			return "", false, fmt.Errorf("item case: bad index %v", v)
		}
		limit := 120 * time.Second
		if p := Lookup(c.Property); p != nil {
			limit = p.itemTimeout(tier)
		}
		self, _ := os.Executable()
		out, died, hung := runItemProc(self, c.Property, tier, space, idx, limit)
		switch {
		case hung:
			return fmt.Sprintf("no result within %v", limit), false, nil
		case died:
			first := out
			if i := strings.Index(first, "\n"); i > 0 {
				first = first[:i]
			}
			return "process died: " + first, false, nil
		case c.Class == "hang" || c.Class == "crash":
			return "item completes", true, nil
		case strings.Contains(out, "sig="+c.Sig+" "):
			return "item reports the recorded violation again", false, nil
		}
		return "item completes without the recorded violation", true, nil
	})
}

#!/usr/bin/env python3
"""Regenerates section 11 (implementation report) of /verif/DESIGN.md from
known_findings.txt, NOTES.md, seeded/*/meta.json and benign/RESULTS.txt."""
import json,re,os
rows=json.load(open('/verif/seeded/RESULTS.json'))
fixed=[l for l in open('/verif/known_findings.txt') if l.startswith('fixed:')]
notes=open('/verif/NOTES.md').read().split('\n',2)[2]
seedtab=[]
for pid,x,st in rows:
    what='';sig=''
    try:
        m=json.load(open(f'/verif/seeded/{pid}-{x}/meta.json'))
        what=str(m.get('what_breaks',''))[:170].replace('\n',' ').replace('|','/')
        sig=m.get('first_violation_signature','')[:90].replace('|','¦')
    except Exception: pass
    seedtab.append(f"| {pid}-{x} | {what} | {st} | `{sig}` |")
nkept=sum(1 for r in rows if r[2].startswith('detected'))
nother=sum(1 for r in rows if r[2].startswith('detected by'))
nundet=sum(1 for r in rows if r[2].startswith('NOT DETECTED'))
noutside=sum(1 for r in rows if r[2].startswith('outside'))
nmissed=sum(1 for r in rows if 'strengthened' in r[2])
ndropped=sum(1 for r in rows if r[2].startswith('dropped'))
benign=[l.strip() for l in open('/verif/benign/RESULTS.txt') if l.strip() and ' suite=' in l]  # the matrix rows; later single-check re-runs are extra blocks
sec=f'''
## 11. Implementation report

### 11.1 What was built

All four explorers exist and every property has a registered check
(`./check <ID> quick|thorough`, MANIFEST.json). `./check setup` builds three
binaries: `mc` (explorers A, B, D), `mcs` (the same code plus explorer C, built
with `-tags verif,sched -overlay` over an instrumented copy of /repo's current
sources that lives only in a `mktemp -d` directory for the duration of the
build) and `mcrace` (the scenario bodies, uninstrumented, `-race`). Every
invocation of `./check` rebuilds from /repo's working tree.

* **Explorer A** (`explore/`, `props/c01…c17.go`): named finite spaces, item =
  expression (or document, or token-prefix), sharded over 16 worker
  subprocesses, merged; a crashed worker is attributed to the item it was
  running and re-run 3x in isolation; a worker that stays on one item beyond
  the item timeout is killed and the item re-run alone twice (`hang`
  violation, or — if it finishes alone — the shard is simply run again); both
  give replayable `item` cases. An expression is compiled once and
  evaluated on all documents and contexts; a mismatch is re-run on a fresh
  compile, and if it only shows on the re-used expression it is stored as a
  *history* case (`evalhist`: compile once, replay the preceding evaluations,
  then the failing one). Measured: 10^8 (C01 quick) to 1.5·10^9 (C01 thorough)
  evaluations per run.
* **Explorer B** (`props/c04.go`, `c12.go`, `c16.go`): histories replayed on a
  fresh Compile / fresh cache; `VerifDumpState` only counts states.
* **Explorer C** (`instr/`, `shim/`, `sched/`, `scen/`, `props/c05_sched.go`):
  go/ast instrumenter (a `verifrt.Point(n)` before every statement of every
  function body and literal; `sync` replaced by `verifsync`), cooperative
  scheduler, DFS with iterated preemption bound, two-level slicing of a
  scenario's schedule tree over 8 work items, determinism check (default
  schedule replayed twice), replay of a recorded choice list twice, and a
  **racy canary** in harness code that the explorer must expose (4 joint
  outcomes in 6 schedules) or the run is declared vacuous. The hooks file
  `verif_hooks.go` is deliberately *not* instrumented (invariants call it from
  inside the scheduler). Model pools and the pattern cache are reset before
  every execution. Expectations ("what the call observes alone") are computed
  lazily *after* the first concurrent run, and the free-running `-race` pass
  starts every scenario in a fresh process, so that the first run meets cold
  package state. An execution that passes 400 000 scheduling points is
  unwound ("did not terminate" is then an observed outcome, class `hang`), and
  every free-running `-race` process has a 3 min (thorough 10 min) limit, so
  that code which spins under concurrency yields a verdict, not a stuck check.
* **Explorer D** (`props/c06.go`): nesting units x outer contexts, each case in
  a child process with `debug.SetMaxStack(64 MiB)`; stack overflow, crash and
  hang (60 s for <= 1000 levels, 300 s above) are the observations.
* **Reference model** (`ref/`): evaluator, XPath number/string rules,
  tokenizer and parser (with the function arity table and, for C17 only, the
  package's documented sequence extension `p/(s1, s2)`), `TreeString` in the
  format of the hook `VerifParseTree`. Self-test at every start (axis partition
  laws on T(<=3), number/string fixed points). "Undefined" (outside the
  property's fragment) propagates out of predicates.

### 11.2 Deviations from the design above

* Known findings live in `known_findings.txt` (line format `open:` / `fixed:`,
  as the brief words it) plus `known/<id>.json` witnesses, not in a `.jsonl`.
  An open entry carries a *regular expression over violation signatures*
  (property | configuration | expression skeleton | context kind | operation |
  class); everything that does not match an open entry is a VIOLATION.
* No separate shrinker: spaces are enumerated simplest-first and per signature
  the smallest witness (document size, then expression length) is kept.
* §7 "mutants/" became `/verif/seeded/` with changes written by independent
  sub-agents (§11.6) — stronger evidence than mutants I would write myself —
  plus `/verif/benign/`, behaviour-preserving refactorings written the same way
  (§11.7), which test the other direction (no alarm where the property holds).
* C04 drops the planned "fresh value vs reference" side check: the property is
  a differential statement (after history = fresh); comparing fresh values with
  the reference there demanded more than the property says, see §11.5.
* C06 additionally demands that an accepted expression is *usable* (Select and
  Evaluate on the empty document do not abort with a Go runtime error) and that
  compiling the same string again gives the same verdict — both follow from
  the property's "usable expression" and were needed to see seeded change C06-D.
* C16's sequential cache oracle only demands what the property states (exact
  value, size bound, failed loads not remembered, uncached keys re-loaded); the
  first version also demanded "a hit never calls the loader / a miss calls it
  once / a successful load is kept", which a correct refactoring may change.
* C13 compares "same result from every start node" as a bag (same nodes, same
  multiplicities), not as a sequence: no property fixes the order in which a
  non-flat path yields its nodes.
* C10 G2 bounds the whitespace placements to the first 9 gaps (3^9 per
  expression); C06 B2 uses 31 tokens and <= 4 (quick) / 5 (thorough) tokens.
* C05 quick bounds: 1 for plain paths, closures-in-predicates and regex-compile
  bodies, 2 for closures and pool scenarios; thorough 2 and 3 (cache: 3 / 4).
* **Limit found while building (§8 addendum):** a stateless explorer re-executes
  in one process, so package-level state that is initialised lazily on first
  use is only cold in the very first execution, which is the default
  (preemption-free) schedule. A race on such first-use initialisation is
  therefore not reachable by explorer C; it is covered by the cold-start
  `-race` pass only (that is how seeded change C05-D is caught).

### 11.3 Genuine defects found on the pinned tree and repaired (one `fix:` commit each)

{len(fixed)} repairs, each validated by the unedited suite (73 tests pass) and by
the check that found it; the list with witnesses is `known_findings.txt`:

''' + ''.join('* '+l[len('fixed: '):] for l in fixed) + f'''
### 11.4 Known findings (genuine, not repaired)

* **C14 `first-node-reverse-axis`** — `name(E)`, `local-name(E)`,
  `namespace-uri(E)` with E a reverse-axis step report the node nearest to the
  context instead of the first node of E in document order
  (`name(ancestor::*)` from an attribute of `/a/p:a` gives `p:a`, XPath `a`).
  Not small: the engine has no document-order comparison.
* **C15 `round-returns-int`** — `Evaluate("round(x)")` returns a Go `int`;
  the repository's own `Test_func_round` asserts that, so a repair would break
  the unedited suite.

Observed but outside every listed property (therefore neither checked nor
listed): positional predicates on non-child axes (`@*[1]` is not per element,
`position()` on `descendant-or-self::`), `(a | b)[1]` / `(a | b)[last()]` use
operand order, `concat()` ignores numeric arguments, `sum()` skips non-numeric
nodes, `'1' < 2` swaps its operands, `string-length()` without argument is
rejected, trailing garbage after a complete expression (`a b`, `a/(b,c)[1]`)
is ignored by the parser, `p:*` matches nothing.

### 11.5 Corrections log (false alarms of the machinery, and what was changed)

{notes}
- FALSE ALARM (C04, oracle): the planned "fresh value vs reference" sub-space reported `(a | b)[1]`
  (first node in operand order) and top-level `position()`/`last()`; C04 only states that a value
  after any history equals the fresh value. Sub-space removed.
- HARNESS BUG (explorer C): the hooks file was instrumented, so an invariant calling
  `VerifCacheRaw` re-entered the scheduler (index out of range inside `sched`); hooks are now
  excluded from instrumentation. The model `Pool` kept objects across executions and the pattern
  cache kept compiled patterns, which made the default schedule non-deterministic (reported as
  INTERNAL, exit 2, never as a violation); both are now reset before every execution.
- HARNESS BUG (C15): violations were stored with replay kind "eval" and expectation
  "not a runtime panic", so `badtype:int` did not "reproduce" on replay (reported as
  FLAKY-INTERNAL, exit 2); a dedicated replayer `c15` now re-applies the full oracle.
- HARNESS BUG (explorer A): a violation that only shows on a RE-USED compiled expression could not
  be replayed by the single-evaluation replayer and ended as FLAKY-INTERNAL (exit 2) instead of a
  VIOLATION (seen with seeded changes C11-D and C13-D); such cases now carry the preceding
  evaluations and are replayed as a history.

### 11.6 Seeded property-breaking changes (detection matrix)

Nine rounds of fresh sub-agents (2 x 17 changes, then 17, then 17, then 9 that
were asked for changes which only manifest on LARGE instances: deep or wide
documents, long histories, three goroutines, larger capacities; then 17 that
were asked for TWO cooperating edits, each harmless alone; then rounds 6 and 7,
2 x 9 and 2 x 8 changes, each sub-agent pointed at named parts of the source —
scanner, conversion helpers, clone methods, dispatch tables — and told which
mechanisms earlier seeds had already used; round 8, 2 x 17, was told that a
harness catches everything listed so far and asked for what such a harness is
LEAST likely to exercise: unusual spellings, node kinds, thresholds, orders of
calls, interactions of two features; round 9, 6 changes in session 4, had the
plain brief again, limited to documents of at most ~50 nodes) were given
only a property's text (rounds 2 and 3 also a one-line description of the
earlier seeds, to force different mechanisms) and a scratch worktree of /repo,
and asked for changes that break the property while compiling and passing the
existing suite, with a demonstration test. Each was confirmed with
`tools/seed_eval.sh` (applies to HEAD, builds, suite passes, demo fails with /
passes without the change) and then applied to /repo and run against the
property's **quick** check. {nkept+nundet+noutside} changes are kept under
`/verif/seeded/<ID>-<X>/` (patch.diff, demo_test.go.txt, meta.json);
{nkept-nother} are reported (exit 1, VIOLATION) by the quick check of the property
they were written for, {nother} by the check of the property whose clause they
really break (a `MoveNext` after the first `false` is C12's clause, a fatal
error under concurrent Compile is C05's), {nundet} are **not detected** because
they need an instance beyond every explored bound (listed in §8a below) and
{noutside} changes behaviour that no listed property fixes. {nmissed} of
them were **missed at first** and led to the strengthening listed below;
{ndropped} changes were dropped because repairs of §11.3 made them harmless or
inapplicable (e.g. three changes that removed a cursor save/restore around an
operand became no-ops once the merged step restores the cursor itself, fix
b2bf495: their own demonstration tests pass on the repaired tree). After the
last repair every kept change was applied again to the repaired tree in a
sandbox copy and its property's quick check re-run (`tools/seed_regress_sandbox.sh`).

| id | what it breaks (author's words, shortened) | result | first violation signature |
|---|---|---|---|
''' + '\n'.join(seedtab) + f'''

Strengthening triggered by misses: C01 + a 3-step slice in the quick tier;
C02 +P5 (existence of two-step paths over all 144 axis pairs, nested predicate
on the last step) +P6 (two candidate-dependent operands) + atoms whose second
argument depends on the candidate; C03 + `last()` on the left of `position()`,
+ positional child steps nested inside predicates; C04 second history document
with the same names/positions but different sibling counts, + last()
expressions, + functions over stateful arguments, + namespace histories
(navigator exposing URIs, two documents binding one prefix differently); C05
+ regex functions with capture groups, lazy expectations and cold-start race
pass; C06 + Calls space, + FilterExpr-predicate wrappers, + depths 25-60 (the
window between "fast" and "rejected as too deep") with a 60 s hang verdict,
+ usability/consistency oracle; C07 +K5 (cursor-moving first operand,
context-dependent second), + padded negative values; C08 + arithmetic inside
predicates over several candidates, + more number lexemes; C09 + arguments
ending in positional predicates evaluated for several candidates; C10 +
operator-named steps after a leading slash; C11 +U5 (unions re-evaluated per
candidate) +U6 (merge-query operands); C12 reverse()/group wrappers go through
the full iterator protocol; C15 non-ASCII and invalid-regex arguments; C16 +
per-node computed patterns; C17 + nested calls/axes in every argument position
of every function, + the sequence extension in the reference grammar.
Round 4 (size thresholds) led to: "spine" documents of depth 4..6(7) and
"wide" parents with 5..6 children as additional universes for C01, C02, C03,
C11, C12, C13 (the T(<=N) universes cannot reach depth 5 or five siblings
under one element within their node budget); repetition histories (one
operation 3..6 times) for C04; three-thread pool scenarios for C05;
capacities 4..6 with a 7-key alphabet for C16. Round 5 (cooperating edits) led to: nested function calls f(g(path)) as
concurrent scenarios for C05 (the engine does not clone a function-call
argument per evaluation); absolute path operands in comparisons for C07;
arithmetic leaves whose path starts with `..` for C08; identities on paths
with positional predicates for C13; name functions over stateful arguments
for several candidates for C14; two replace() calls with shared literals in
one expression for C16; damage inside the operand of `true() or X` /
`false() and X` for C17. These are the seeds marked
"after the check was strengthened" among the E and F rows; before, they were only
within reach of the thorough tier (depth) or of no tier (five siblings,
capacity 4).
Rounds 6 and 7 (34 changes, 12 missed at first) led to: a coordinator-side
watchdog (a change that makes Compile spin made `./check C06` itself hang —
now a `hang` violation within minutes, §1.8); namespace maps with arbitrary
prefixes as inputs of CompileWithNS (C06); EVERY number lexeme over a digit
alphabet up to a length, incl. `.5` and `5.` spellings (C08); operator chains
over 21 operand *forms* — `1.`, `(x)`, `f(x)`, `$v`, `*`, names spelled like
operators — so that an operator is seen next to every token kind (C10);
count()/Evaluate asked twice of one compiled expression and positional
wrappers (C12); subjects that are empty node-sets with patterns matching ''
(C16); near misses of every axis name (C17); and/or operands that are
multi-step paths with a last-step predicate, both orders (C02 P7); siblings
with the same local name under different prefixes (C03 Pos5); a parent with
255..300 children, i.e. sibling positions beyond one byte (C11 U7); operator
trees whose operands are operator trees, as concurrent scenarios (C05).
While adding multi-predicate parenthesised hosts to C02 a further genuine
defect surfaced (`(P)[A][B]` lost `[B]`), repaired in §11.3.
Round 8 ("what a harness is least likely to exercise": 34 changes, 27 missed
at first) showed where the alphabets were too tidy and led to: element and
attribute names that differ only in letter case or extend each other (C01);
names containing `-`, `.` and digits and operators glued to numbers — `6div 3`,
`a-1 -1` (C08, C10); whitespace-only text siblings (C03) and values (C07);
doubles a few ulps apart, numbers left of a node-set in relational tests,
number- and string-valued operands of and/or inside predicates (C07, C02);
prefixed name tests directly before `and`/`or`/`div`/`mod`, and every
namespace configuration repeated with the prefix spelled `xml` (C14);
`reverse()` as a union operand, two 140-level twin branches (C11); the written-out
`descendant-or-self::node()/x` (C12); the sequence form as P of the identities
(C13); a *size* space — chains of depth 24/40, 70 siblings, 1..257 capture
groups — for C15; `$n` references over patterns whose group count changes from
candidate to candidate (C16); substring arguments beyond 2^32 / 2^63 and the value
of a string function right after an evaluation that aborted half-way (C09);
histories containing such aborting evaluations, with the process-global
builder pool brought to rest before every history so that a finding is
attributable to its own history, and a second NodeNavigator implementation
inside one history (C04); a namespace map shared by concurrent CompileWithNS
calls (C05); 4*10^6 nesting levels in the quick tier (C06); case variants of
function names and blanks inside qualified names (C17, already caught).
Round 9 (6 changes for C06, C07, C08, C09, C13, C17; 5 caught at once — a
re-panicking recover for runtime errors in build(), `<=` written as `!(a > b)`
so that NaN compares true, unary minus as `0 - x` losing the sign of zero,
translate() through a last-wins rune map, qualified names whose local part
starts with a digit) had one miss: C13-M restores the context cursor in
filterQuery.Select only when the predicate ACCEPTS the candidate. C02 (space
P6) and C07 reported it, C13 did not, because its predicate atoms never put a
candidate-rejecting filtered step LEFT of a context-reading operand inside an
operator that does not save the cursor itself. C13 now has that family
(`ctxMovers()`: 5 filtered steps x 4 context readers x `=`, `!=`,
`count()+count() = 2` on 7 host steps) in the Compose and Identity spaces,
and the identities are also placed as right operand of `=`, `!=` and `+` after
such a step. A first form of the `+` variant compared `count(q) + count((P))`
for absolute multi-step P and raised 600 signatures on the unchanged tree:
`count(//following-sibling::comment())` counts a node once per step that
reaches it, and which start node yields how many repeats differs — but no
listed property fixes count() of a sequence that repeats nodes (C12 speaks of
child/attribute/self paths and a single `//name`; C13's identities are about
node SETS and truth values). That was a **false alarm of the new variant,
caught before commit**: P now enters through `number(boolean((P)))`.
The strengthened C13 was re-run against the 9 behaviour-preserving patches
that touch query.go / xpath.go (§11.7): no alarm (benign/RESULTS.txt, last block).
Two side remarks of a round-8 sub-agent were **genuine defects of the pinned
tree** that the strengthened C02/C07 checks then reproduced (a merged step left
the cursor moved; a filtered descendant step skipped nested matches); both are
repaired (§11.3).

**§8a — seeded changes that stay undetected (outside every explored bound).**
C03-K caps the sibling walk of position()/last() at 65 536 (needs a parent with
more than 65 536 children; one evaluation is then quadratic, ~4*10^9 navigator
calls); C13-L narrows the node-identity hash to 32 bits (first collisions
between ~10^5 nodes). Both are size effects far beyond a small scope; the
checks' largest documents have 300 siblings / 283 nodes. They are kept under
`seeded/` as documented misses. C12-K (a positional predicate on a mid-path
`.` step) changes behaviour that no listed property fixes (C03 speaks about
child-axis steps, C12 about predicate-free flat paths) and is kept as
"outside".
Three pre-existing engine defects were also reported by a sub-agent as a side
remark (stale state in nested descendant steps and merge queries inside
predicates; cursor left moved between the operands of a comparison); the
strengthened C02/C07 checks reproduce all three, and they are repaired (§11.3).

### 11.7 Behaviour-preserving refactorings (no-alarm matrix)

Six sub-agents wrote three non-trivial, behaviour-preserving refactorings each
(axis iterators and identity hashing, function library and comparison
dispatch, scanner/parser restructuring, query builder tables, cache and public
API, reflection removal / hashing) — stored under `/verif/benign/`. Each was
applied to /repo alone and **all 17 quick checks** were run
(`tools/benign_eval.sh`): every check exited 0. A seventh sub-agent
implemented eight *spec-conformance improvements that lie outside every listed
property* (union in document order, sum() NaN on non-numeric nodes, concat()
converting numbers, trailing garbage rejected, `p:*` matching, per-element
`@*[n]`, document-order first node for name(ancestor::*) — the open C14
finding, for which the check then simply prints no KNOWN-FINDING line —, and
`'1' < 2` in written order); these change observable behaviour, but none of
it is behaviour a listed property fixes. The whole matrix was run again at
the end, against the checks as strengthened by all eight seeding rounds and
the repaired tree, in a sandbox copy (`tools/benign_sandbox.sh`: a worktree of
/verif whose module `replace` points at a worktree of /repo, so that /repo
itself stays untouched): {len(benign)} changes x 17 quick checks. One alarm was
raised — C13 on improvement I4 (trailing input rejected) — and it was a false
alarm of a check added in round 8 (§11.5, last entry); after the correction
the pair was re-run: every check exits 0 on all {len(benign)} changes. One
refactoring (w1-R2) had to be re-based by hand onto fix b2bf495.

```
''' + '\n'.join(benign) + '''
```

### 11.8 Measured cost (16 cores, unchanged tree)

Quick tier after eight seeding rounds, wall seconds on the otherwise idle
sandbox (final run): C01 52, C02 55, C03 72, C04 64, C05 91, C06 30, C07 32,
C08 22, C09 4, C10 43, C11 30, C12 45, C13 55, C14 41, C15 5, C16 10, C17 2 —
about 11 minutes for all 17 (5 minutes before rounds 6-8 roughly doubled the
spaces; setup: ~12 s warm, ~70 s cold). The quick budgets (internal deadlines,
150-300 s) leave a factor 2-4 of slack. Thorough tiers, last complete runs
(`vp run`, commit 1ae6054, with two other jobs on the machine): C06 12 min
(6.8*10^7 strings), C10 7 min (1.5*10^8 parses, 6.7*10^7 distinct), C16 9 min,
C11 4 min (3.0*10^8), C12 12 min (1.5*10^9), C02 21 min (1.7*10^9), C03 26 min
(1.7*10^9), all exhaustive; C08 and C05 stopped at their budgets
(exhaustive=false; C05: 2.5*10^8 schedules in 60 min). The spaces added after
that commit were run at the thorough tier separately (C01 S2xCase3, C02 P7/P8,
C03 Pos5/Pos6, C16 RegexPerNode-3, C13 Identity, C11 U4/U7, and all of C14,
C09, C07, C15): no violation; C14 and C07 stopped at their then budgets, which
were raised afterwards.
'''
s=open('/verif/DESIGN.md').read()
if '## 11. Implementation report' in s:
    s=s[:s.index('\n## 11. Implementation report')]
open('/verif/DESIGN.md','w').write(s.rstrip('\n')+'\n'+sec)
print('DESIGN.md section 11 regenerated:',len(fixed),'fixes,',nkept,'seeds,',len(benign),'benign')

#!/bin/bash
# sandbox.sh <name> — create (or refresh) a sandbox pair that leaves /repo and /verif untouched:
#   /tmp/v-<name>  git worktree of /verif HEAD, its go.mod `replace` pointing at
#   /tmp/r-<name>  git worktree of /repo HEAD
# run checks there with:  cd /tmp/v-<name> && VERIF_REPO=/tmp/r-<name> GOCACHE=/verif/.cache/go-build ./check <ID> quick
# remove with: git -C /verif worktree remove --force /tmp/v-<name>; git -C /repo worktree remove --force /tmp/r-<name>
set -e
n=$1
git -C /verif worktree remove --force /tmp/v-$n 2>/dev/null || true
git -C /repo worktree remove --force /tmp/r-$n 2>/dev/null || true
git -C /verif worktree add -f --detach /tmp/v-$n HEAD >/dev/null
git -C /repo worktree add -f --detach /tmp/r-$n HEAD >/dev/null
sed -i "s|=> /repo|=> /tmp/r-$n|" /tmp/v-$n/mc/go.mod
echo "/tmp/v-$n /tmp/r-$n"

#!/bin/bash
# benign_sandbox.sh <sandbox name> [patch dirs...] — apply each behaviour-preserving / out-of-scope change
# (benign/*/patch.diff) to the sandbox repo, run the suite and EVERY quick check in the sandbox, undo. No alarm expected.
set -u
n=$1; shift
V=/tmp/v-$n; R=/tmp/r-$n
export VERIF_REPO=$R GOCACHE=/verif/.cache/go-build GOFLAGS=-mod=mod GOPROXY=off GOSUMDB=off GOTOOLCHAIN=local
dirs=${*:-/verif/benign/w*-R* /verif/benign/improve-I*}
for d in $dirs; do
  X=$(basename $d)
  cd $R; git checkout -q -- .
  git apply $d/patch.diff 2>/dev/null || git apply --3way $d/patch.diff 2>/dev/null || { echo "$X apply=FAIL"; git checkout -q -- .; git reset -q --hard HEAD; continue; }
  go test -vet=off -count=1 ./... >/dev/null 2>&1 && suite=pass || suite=FAIL
  cd $V; bad=""
  for id in $(python3 -c "import json;print(' '.join(c['property_id'] for c in json.load(open('MANIFEST.json'))['checks']))"); do
    out=$(./check $id quick 2>&1); rc=$?
    if [ $rc -ne 0 ]; then bad="$bad $id(rc=$rc)"; echo "$out" | grep -E "VIOLATION|INTERNAL|sig=|FAILED" | head -6 | sed "s|^|    [$X $id] |"; mkdir -p /tmp/benign-alarms/$X-$id; cp -r replays/$id/* /tmp/benign-alarms/$X-$id/ 2>/dev/null; fi
  done
  echo "$X suite=$suite alarms:${bad:- none}"
done
cd $R; git checkout -q -- .; git reset -q --hard HEAD
echo done

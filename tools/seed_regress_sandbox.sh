#!/bin/bash
# regression of every kept seed in the sandbox pair (/tmp/v-s checks, /tmp/r-s repo)
export VERIF_REPO=/tmp/r-s GOCACHE=/verif/.cache/go-build GOFLAGS=-mod=mod GOPROXY=off GOSUMDB=off GOTOOLCHAIN=local
for d in ${SEEDS:-/verif/seeded/C*-*/}; do
  n=$(basename $d); id=${n%-*}
  [ -f $d/patch.diff ] || continue
  cd /tmp/r-s; git reset -q --hard HEAD; git clean -fdq
  if ! git apply $d/patch.diff 2>/dev/null && ! git apply --3way $d/patch.diff 2>/dev/null; then echo "$n apply=FAIL"; git checkout -q -- . ; git reset -q --hard HEAD; continue; fi
  go build ./... 2>/dev/null || { echo "$n build=FAIL"; git checkout -q -- .; continue; }
  cd /tmp/v-s; out=$(./check $id quick 2>&1); rc=$?
  echo "$n rc=$rc $(echo "$out" | grep -c '^VIOLATION') $(echo "$out" | grep -m1 'sig=' | cut -c1-120)"
done
cd /tmp/r-s; git checkout -q -- .; git reset -q --hard HEAD
echo done

#!/bin/bash
# seed_eval.sh <ID> <A|B> [tier]   — evaluate one seeded change from /tmp/seed/<ID>.out against /repo HEAD and my check
# 1. confirm in a scratch worktree: applies, builds, suite passes, demo fails; without it the demo passes
# 2. apply to /repo, run the property's check, undo
set -u
ID=$1; X=$2; TIER=${3:-quick}
OUT=${SEEDDIR:-/tmp/seed}/$ID.out
export GOFLAGS=-mod=mod GOPROXY=off GOSUMDB=off GOTOOLCHAIN=local
W=/tmp/seedchk-$ID-$X
rm -rf $W; git -C /repo worktree prune; git -C /repo worktree add -q --detach $W HEAD || exit 9
res="id=$ID-$X"
cd $W
if ! git apply --3way $OUT/$X.patch.diff 2>/dev/null && ! git apply $OUT/$X.patch.diff 2>/dev/null; then res="$res apply=FAIL"; echo "$res"; git -C /repo worktree remove --force $W; exit 0; fi
go build ./... 2>/dev/null && res="$res build=ok" || res="$res build=FAIL"
go test -vet=off -count=1 ./... >/dev/null 2>&1 && res="$res suite=pass" || res="$res suite=FAIL"
cp $OUT/${X}_demo_test.go ./seed_demo_test.go
DEMO="go test -vet=off -count=1 -run TestSeed ./..."
[ "$ID" = C05 ] && DEMO="go test -race -vet=off -count=1 -run TestSeed ./..."
timeout 600 $DEMO >/dev/null 2>&1 && res="$res demo_with_change=PASS(bad)" || res="$res demo_with_change=fail(ok)"
git checkout -q -- . ; git reset -q --hard HEAD >/dev/null; cp $OUT/${X}_demo_test.go ./seed_demo_test.go
timeout 600 $DEMO >/dev/null 2>&1 && res="$res demo_clean=pass(ok)" || res="$res demo_clean=FAIL(bad)"
cd /; git -C /repo worktree remove --force $W
# my check
cd /repo && git apply $OUT/$X.patch.diff 2>/dev/null || git apply --3way $OUT/$X.patch.diff 2>/dev/null || { echo "$res repo_apply=FAIL"; git checkout -q -- .; exit 0; }
cd /verif
s=$(date +%s)
out=$(./check $ID $TIER 2>&1); rc=$?
e=$(date +%s)
git -C /repo checkout -q -- . ; git -C /repo reset -q HEAD 2>/dev/null
nv=$(echo "$out" | grep -c "^VIOLATION")
sig=$(echo "$out" | grep -m1 "sig=" | cut -c1-160)
echo "$res check_rc=$rc violations=$nv time=$((e-s))s $sig"

#!/bin/bash
# benign_eval.sh <dir> <name>  — apply a behaviour-preserving refactoring to /repo, run every quick check, undo.
# Every check must exit 0 (KNOWN-FINDING lines allowed).
set -u
D=$1; X=$2
cd /repo && git apply "$D/$X.patch.diff" || { echo "$D/$X apply=FAIL"; git checkout -q -- .; exit 0; }
export GOFLAGS=-mod=mod GOPROXY=off GOSUMDB=off GOTOOLCHAIN=local
go test -vet=off -count=1 ./... >/dev/null 2>&1 && suite=pass || suite=FAIL
cd /verif
bad=""
for id in $(python3 -c "import json;print(' '.join(c['property_id'] for c in json.load(open('MANIFEST.json'))['checks']))"); do
  out=$(./check $id quick 2>&1); rc=$?
  if [ $rc -ne 0 ]; then bad="$bad $id(rc=$rc)"; echo "$out" | grep -E "VIOLATION|INTERNAL|sig=|FAILED" | head -6 | sed "s|^|    [$X $id] |"; mkdir -p /tmp/benign/alarms/$X-$id; cp -r replays/$id/* /tmp/benign/alarms/$X-$id/ 2>/dev/null; fi
done
git -C /repo checkout -q -- . ; git -C /repo clean -fdq 2>/dev/null
echo "$(basename $D)/$X suite=$suite alarms:${bad:- none}"

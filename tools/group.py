#!/usr/bin/env python3
# group violation replay files of a property: tools_group.py C02 [mode]
import json,glob,collections,re,sys
prop=sys.argv[1]
cs=[json.load(open(f)) for f in glob.glob(f'/verif/replays/{prop}/*.json')]
g=collections.defaultdict(list)
for c in cs:
    sig=c['signature'].split('|')
    sk=sig[1]
    preds=re.findall(r'\[(.*)\]',sk)
    key=(sig[-1], re.sub(r'::(N|\*|node\(\)|text\(\)|comment\(\))','::T',preds[0] if preds else sk))
    if len(sys.argv)>2 and sys.argv[2]=='host':
        key=(sig[-1], re.sub(r'\[.*\]','[P]',sk))
    g[key].append(c)
print(len(cs),'signatures;',len(g),'groups')
for k,v in sorted(g.items(),key=lambda kv:-len(kv[1])):
    c=min(v,key=lambda c:(len(c['tree_text']),len(c['expr'])))
    print(len(v),k,'|',c['expr'],'|',c['tree_text'],'|',c['ctx_text'],'|',c['expected'],'|',c['got'][:80])

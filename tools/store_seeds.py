#!/usr/bin/env python3
"""store_seeds.py <seed dir> <letter> <round> <results file> [ID,ID,... missed-at-first]
Copies confirmed seeded changes into /verif/seeded and updates seeded/RESULTS.json."""
import json,os,shutil,re,sys
src,x,rnd,resf=sys.argv[1:5]
missed=set(sys.argv[5].split(',')) if len(sys.argv)>5 and sys.argv[5] else set()
rows=json.load(open('/verif/seeded/RESULTS.json'))
rows=[r for r in rows if r[1]!=x]
res={}
for l in open(resf):
    m=re.match(r'id=(C\d+)-'+x+r' (.*)',l)
    if m: res[m.group(1)]=m.group(2)
for pid,r in sorted(res.items()):
    if 'check_rc=1' not in r or 'demo_with_change=fail(ok)' not in r or 'demo_clean=pass(ok)' not in r or 'suite=pass' not in r:
        rows.append([pid,x,'NOT KEPT: '+r[:120]]); continue
    d=f'/verif/seeded/{pid}-{x}'
    os.makedirs(d,exist_ok=True)
    shutil.copy(f'{src}/{pid}.out/{x}.patch.diff',f'{d}/patch.diff')
    shutil.copy(f'{src}/{pid}.out/{x}_demo_test.go',f'{d}/demo_test.go.txt')
    meta=json.load(open(f'{src}/{pid}.out/{x}.meta.json'))
    sig=re.search(r'sig=(.*)$',r)
    meta.update({"property":pid,"origin":f"written by an independent sub-agent that saw only the property text and a scratch worktree of /repo (round {rnd})",
      "confirmed_by_me":"tools/seed_eval.sh: patch applies to /repo HEAD, go build ok, full existing suite passes with the change, the demo test fails with the change and passes without it",
      "demo":"demo_test.go.txt (copy into the repository root as *_test.go, package xpath; run: go test -vet=off -count=1 -run TestSeed ./..." + (" with -race" if pid=='C05' else "") + ")",
      "check_run":f"git -C /repo apply seeded/{pid}-{x}/patch.diff && ./check {pid} quick ; git -C /repo checkout -- .",
      "detected_by":f"./check {pid} quick -> exit 1, VIOLATION",
      "first_violation_signature":sig.group(1).strip() if sig else "",
      "missed_before_strengthening": pid in missed})
    json.dump(meta,open(f'{d}/meta.json','w'),indent=1)
    rows.append([pid,x,'detected'+(' (after the check was strengthened)' if pid in missed else '')])
rows.sort()
json.dump(rows,open('/verif/seeded/RESULTS.json','w'),indent=0)
print(sum(1 for r in rows if r[2].startswith('detected')),'kept in total')

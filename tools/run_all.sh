#!/bin/bash
# run every registered quick check and validate the evidence files
cd /verif
fail=0
for id in $(python3 -c "import json;print(' '.join(c['property_id'] for c in json.load(open('MANIFEST.json'))['checks']))"); do
  s=$(date +%s.%N)
  out=$(./check $id ${1:-quick} 2>&1); rc=$?
  e=$(date +%s.%N)
  echo "$id rc=$rc $(printf '%.1f' $(echo "$e-$s"|bc))s :: $(echo "$out" | grep "^$id " | tail -1)"
  [ $rc -ne 0 ] && { fail=1; echo "$out" | grep -E "VIOLATION|INTERNAL" | head -5; }
done
python3-vt - <<'PY'
import json,jsonschema,glob
sch=json.load(open('/root/.vp/EVIDENCE.schema.json'))
m=json.load(open('/verif/MANIFEST.json'))
for c in m['checks']:
    f=c['evidence_file']
    try:
        e=json.load(open(f)); jsonschema.validate(e,sch)
        assert e['level']==c['level_claimed']['category'],(e['level'],c['level_claimed']['category'])
    except Exception as ex:
        print('EVIDENCE INVALID',f,str(ex)[:200])
print('evidence validated')
PY
exit $fail

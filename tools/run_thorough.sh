#!/bin/bash
# run the thorough tier of the given properties (default: all) one after another; summary lines only
cd "$(dirname "$0")/.."
ids=${*:-$(python3 -c "import json;print(' '.join(c['property_id'] for c in json.load(open('MANIFEST.json'))['checks']))")}
for id in $ids; do
  s=$(date +%s)
  out=$(./check $id thorough 2>&1); rc=$?
  e=$(date +%s)
  echo "$id thorough rc=$rc $((e-s))s :: $(echo "$out" | grep "^$id " | tail -1)"
  [ $rc -ne 0 ] && echo "$out" | grep -E "VIOLATION|INTERNAL|sig=" | head -8
  python3 - <<PY
import json
e=json.load(open('evidence/$id.json'))
for sp in e['coverage'].get('spaces',[]):
    print('   ',sp['space'],sp['items_completed'],'/',sp['items'])
PY
done

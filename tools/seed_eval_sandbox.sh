#!/bin/bash
# seed_eval_sandbox.sh <ID> <letter> [tier]  — like seed_eval.sh but leaves /repo untouched:
# the change is applied to the dev sandbox repo /tmp/rc and checked by a fresh copy of /verif's working tree in /tmp/vc.
set -u
ID=$1; X=$2; TIER=${3:-quick}
OUT=${SEEDDIR:-/tmp/seed}/$ID.out
export GOFLAGS=-mod=mod GOPROXY=off GOSUMDB=off GOTOOLCHAIN=local
[ -d /tmp/rc ] || git -C /repo worktree add -q --detach /tmp/rc HEAD
mkdir -p /tmp/vc
rsync -a --delete --exclude .cache --exclude .git --exclude replays --exclude mc/go.mod /verif/ /tmp/vc/
sed 's|=> /repo|=> /tmp/rc|' /verif/mc/go.mod > /tmp/vc/mc/go.mod
res="id=$ID-$X"
cd /tmp/rc; git checkout -q -- .; git reset -q --hard HEAD; git clean -fdq
if ! git apply $OUT/$X.patch.diff 2>/dev/null; then echo "$res apply=FAIL"; exit 0; fi
go build ./... 2>/dev/null && res="$res build=ok" || res="$res build=FAIL"
go test -vet=off -count=1 ./... >/dev/null 2>&1 && res="$res suite=pass" || res="$res suite=FAIL"
cp $OUT/${X}_demo_test.go ./seed_demo_test.go
DEMO="go test -vet=off -count=1 -run TestSeed ./..."
[ "$ID" = C05 ] && DEMO="go test -race -vet=off -count=1 -run TestSeed ./..."
timeout 600 $DEMO >/dev/null 2>&1 && res="$res demo_with_change=PASS(bad)" || res="$res demo_with_change=fail(ok)"
git checkout -q -- . ; cp $OUT/${X}_demo_test.go ./seed_demo_test.go
timeout 600 $DEMO >/dev/null 2>&1 && res="$res demo_clean=pass(ok)" || res="$res demo_clean=FAIL(bad)"
rm -f seed_demo_test.go; git checkout -q -- .
git apply $OUT/$X.patch.diff
cd /tmp/vc
s=$(date +%s)
out=$(VERIF_REPO=/tmp/rc GOCACHE=/verif/.cache/go-build ./check $ID $TIER 2>&1); rc=$?
e=$(date +%s)
git -C /tmp/rc checkout -q -- .
nv=$(echo "$out" | grep -c "^VIOLATION")
sig=$(echo "$out" | grep -m1 "sig=" | cut -c1-160)
echo "$res check_rc=$rc violations=$nv time=$((e-s))s $sig"
